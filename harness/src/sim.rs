//! Deterministic simulator: two real `Multiplexor`s (or one and a scripted raw peer) stepped
//! by hand over a gated in-memory `WebSocket`.  One command = one step of the real code =
//! one ndjson event that the TLA+ trace specification (spec/MuxTrace.tla) must match.
//!
//! Nothing here judges protocol behaviour: the simulator only executes commands and projects
//! what is observable (results of API calls, decoded frames crossing the link, wake-ups).

use bytes::Bytes;
use penguin_mux::config::Options;
use penguin_mux::frame::BindType;
use penguin_mux::timing::TimestampProvider;
use penguin_mux::ws::{Message, WebSocket};
use penguin_mux::{BindRequest, Datagram, Multiplexor, MuxStream};
use serde_json::{Value, json};
use std::collections::{BTreeMap, VecDeque};
use std::future::Future;
use std::panic::{AssertUnwindSafe, catch_unwind};
use std::pin::Pin;
use std::sync::atomic::{AtomicUsize, Ordering};
use std::sync::{Arc, Mutex};
use std::task::{Context, Poll, Wake, Waker};
use tokio::io::{AsyncRead, AsyncWrite, ReadBuf};

// ---------------------------------------------------------------------------------------
// Watchdog support: every emitted event is also appended to a global log, and the command in flight
// is published, so that a watchdog thread can write the partial trace plus a `hang` event when one
// step of the code under test never returns (a busy loop or a blocking call inside one poll).
// ---------------------------------------------------------------------------------------
pub static PROGRESS: std::sync::atomic::AtomicU64 = std::sync::atomic::AtomicU64::new(0);
pub static IN_STEP: std::sync::atomic::AtomicBool = std::sync::atomic::AtomicBool::new(false);
pub static LOG: Mutex<Vec<String>> = Mutex::new(Vec::new());
pub static CUR: Mutex<String> = Mutex::new(String::new());

/// Start the watchdog: if a single step takes longer than `secs`, write everything logged so far plus
/// `{"ev":"hang","cmd":...}` to `out` and exit with status 3.
pub fn start_watchdog(out: String, secs: u64) {
    std::thread::spawn(move || {
        let mut last = PROGRESS.load(Ordering::SeqCst);
        let mut since = std::time::Instant::now();
        loop {
            std::thread::sleep(std::time::Duration::from_millis(250));
            let now = PROGRESS.load(Ordering::SeqCst);
            if now != last || !IN_STEP.load(Ordering::SeqCst) {
                last = now;
                since = std::time::Instant::now();
                continue;
            }
            if since.elapsed().as_secs() >= secs {
                let mut lines = LOG.lock().unwrap().clone();
                let cmd: Value = serde_json::from_str(&CUR.lock().unwrap()).unwrap_or(Value::Null);
                lines.push(json!({"ev": "hang", "cmd": cmd, "woke": []}).to_string());
                let mut text = lines.join("\n");
                text.push('\n');
                std::fs::write(&out, text).ok();
                eprintln!("mux_sim: watchdog: a step did not return within {secs}s");
                std::process::exit(3);
            }
        }
    });
}

// ---------------------------------------------------------------------------------------
// Virtual time: tokio's paused clock.  It moves only when the schedule says `advance`; the runtime
// is global because only `Runtime::block_on` (not a Handle) turns the timer driver of a
// current-thread runtime, which is what makes the interval timer of the keepalive fire.
// ---------------------------------------------------------------------------------------
pub fn rt() -> &'static tokio::runtime::Runtime {
    static RT: std::sync::OnceLock<tokio::runtime::Runtime> = std::sync::OnceLock::new();
    RT.get_or_init(|| {
        tokio::runtime::Builder::new_current_thread()
            .enable_time()
            .start_paused(true)
            .build()
            .unwrap()
    })
}

#[derive(Copy, Clone, Debug)]
pub struct VClock(tokio::time::Instant);
impl TimestampProvider for VClock {
    fn now() -> Self {
        VClock(tokio::time::Instant::now())
    }
    fn duration_since(&self, earlier: Self) -> std::time::Duration {
        self.0.duration_since(earlier.0)
    }
}

// ---------------------------------------------------------------------------------------
// Scripted RNG: replays a list of draws, then falls back to a counter that avoids collisions
// ---------------------------------------------------------------------------------------
#[derive(Debug)]
pub struct ScriptRng {
    pub script: Arc<Mutex<VecDeque<u32>>>,
    pub drawn: Arc<Mutex<Vec<u32>>>,
    pub fallback: u32,
}
impl rand::TryRng for ScriptRng {
    type Error = std::convert::Infallible;
    fn try_next_u32(&mut self) -> Result<u32, Self::Error> {
        let v = self.script.lock().unwrap().pop_front().unwrap_or_else(|| {
            self.fallback = self.fallback.wrapping_add(1);
            self.fallback
        });
        self.drawn.lock().unwrap().push(v);
        Ok(v)
    }
    fn try_next_u64(&mut self) -> Result<u64, Self::Error> {
        Ok(u64::from(self.try_next_u32()?))
    }
    fn try_fill_bytes(&mut self, dst: &mut [u8]) -> Result<(), Self::Error> {
        for b in dst.iter_mut() {
            *b = self.try_next_u32()? as u8;
        }
        Ok(())
    }
}

// ---------------------------------------------------------------------------------------
// Link
// ---------------------------------------------------------------------------------------
#[derive(Debug, Clone)]
pub enum WireItem {
    Msg(Message),
    Eos,
    Err,
}

#[derive(Debug, Clone, Copy, PartialEq, Eq)]
pub enum SinkState {
    Open,
    Cut,
    /// failure that only shows when something is sent or the sink is closed (poll_ready succeeds)
    SoftCut,
    Closed,
}

#[derive(Debug)]
pub struct LinkEnd {
    /// messages this endpoint has put on the link, not yet taken by the peer
    pub wire: VecDeque<WireItem>,
    /// messages accepted by `start_send` and not yet flushed: a sink may buffer, only `poll_flush` / `poll_close` put them on
    /// the link
    pub unflushed: VecDeque<WireItem>,
    /// `poll_flush` completes in this poll (else it is Pending)
    pub flush_grant: bool,
    pub send_grant: u32,
    pub recv_grant: u32,
    pub sink: SinkState,
    pub fused: bool,
    /// the receiving direction has failed and stays silent afterwards: the error was delivered, nothing follows,
    /// not even the end of the stream (the `WebSocket` trait promises nothing about what comes after an error)
    pub mute: bool,
    /// the next transport failure of this receiving direction is of the silent kind
    pub err_then_silent: bool,
    /// per-step logs
    pub sent_log: Vec<Message>,
    pub rcv_log: Option<WireItem>,
}

#[derive(Debug)]
pub struct Link {
    pub ends: [LinkEnd; 2],
}

impl Link {
    pub fn new() -> Self {
        let mk = || LinkEnd {
            wire: VecDeque::new(),
            unflushed: VecDeque::new(),
            flush_grant: true,
            send_grant: 0,
            recv_grant: 0,
            sink: SinkState::Open,
            fused: false,
            mute: false,
            err_then_silent: false,
            sent_log: Vec::new(),
            rcv_log: None,
        };
        Self { ends: [mk(), mk()] }
    }
}

pub struct SimWs {
    pub me: usize,
    pub link: Arc<Mutex<Link>>,
}

fn ws_err() -> penguin_mux::Error {
    penguin_mux::Error::WebSocket(Box::new(std::io::Error::other("simulated transport failure")))
}

impl WebSocket for SimWs {
    fn poll_ready_unpin(&mut self, _cx: &mut Context<'_>) -> Poll<Result<(), penguin_mux::Error>> {
        let l = self.link.lock().unwrap();
        let end = &l.ends[self.me];
        match end.sink {
            SinkState::Cut | SinkState::Closed => Poll::Ready(Err(ws_err())),
            SinkState::Open | SinkState::SoftCut => {
                if end.send_grant > 0 {
                    Poll::Ready(Ok(()))
                } else {
                    Poll::Pending
                }
            }
        }
    }
    fn start_send_unpin(&mut self, item: Message) -> Result<(), penguin_mux::Error> {
        let mut l = self.link.lock().unwrap();
        let end = &mut l.ends[self.me];
        end.send_grant = end.send_grant.saturating_sub(1);
        if end.sink != SinkState::Open {
            return Err(ws_err());
        }
        end.sent_log.push(item.clone());
        end.unflushed.push_back(WireItem::Msg(item));
        Ok(())
    }
    fn poll_flush_unpin(&mut self, _cx: &mut Context<'_>) -> Poll<Result<(), penguin_mux::Error>> {
        let mut l = self.link.lock().unwrap();
        let end = &mut l.ends[self.me];
        match end.sink {
            SinkState::Open => {
                if !end.flush_grant {
                    return Poll::Pending;
                }
                while let Some(m) = end.unflushed.pop_front() {
                    end.wire.push_back(m);
                }
                Poll::Ready(Ok(()))
            }
            SinkState::Cut | SinkState::SoftCut | SinkState::Closed => {
                if end.unflushed.is_empty() && end.sink == SinkState::Closed {
                    return Poll::Ready(Ok(()));
                }
                end.unflushed.clear();
                Poll::Ready(Err(ws_err()))
            }
        }
    }
    fn poll_close_unpin(&mut self, _cx: &mut Context<'_>) -> Poll<Result<(), penguin_mux::Error>> {
        let mut l = self.link.lock().unwrap();
        let end = &mut l.ends[self.me];
        match end.sink {
            SinkState::Open => {
                end.sink = SinkState::Closed;
                end.sent_log.push(Message::Close);
                // closing flushes what the sink has buffered
                while let Some(m) = end.unflushed.pop_front() {
                    end.wire.push_back(m);
                }
                end.wire.push_back(WireItem::Msg(Message::Close));
                Poll::Ready(Ok(()))
            }
            SinkState::Closed => Poll::Ready(Ok(())),
            SinkState::Cut | SinkState::SoftCut => Poll::Ready(Err(ws_err())),
        }
    }
    fn poll_next_unpin(
        &mut self,
        _cx: &mut Context<'_>,
    ) -> Poll<Option<Result<Message, penguin_mux::Error>>> {
        let mut l = self.link.lock().unwrap();
        if l.ends[self.me].mute {
            return Poll::Pending;
        }
        if l.ends[self.me].fused {
            return Poll::Ready(None);
        }
        if l.ends[self.me].recv_grant == 0 || l.ends[1 - self.me].wire.is_empty() {
            return Poll::Pending;
        }
        l.ends[self.me].recv_grant -= 1;
        let item = l.ends[1 - self.me].wire.pop_front().unwrap();
        l.ends[self.me].rcv_log = Some(item.clone());
        match item {
            WireItem::Msg(m) => {
                // RFC 6455: nothing follows a Close frame; a real WebSocket stream ends after it
                if m == Message::Close {
                    l.ends[self.me].fused = true;
                }
                // RFC 6455: the WebSocket layer answers a Ping by itself (the multiplexor relies on it);
                // the Pong does not pass through the task's queue and needs no send grant
                if m == Message::Ping && l.ends[self.me].sink == SinkState::Open {
                    l.ends[self.me].sent_log.push(Message::Pong);
                    l.ends[self.me].wire.push_back(WireItem::Msg(Message::Pong));
                }
                Poll::Ready(Some(Ok(m)))
            }
            WireItem::Eos => {
                l.ends[self.me].fused = true;
                Poll::Ready(None)
            }
            WireItem::Err => {
                if l.ends[self.me].err_then_silent {
                    l.ends[self.me].mute = true;
                } else {
                    l.ends[self.me].fused = true;
                }
                Poll::Ready(Some(Err(ws_err())))
            }
        }
    }
}

// ---------------------------------------------------------------------------------------
// Wake flags
// ---------------------------------------------------------------------------------------
pub struct WakeFlag {
    pub name: String,
    pub count: AtomicUsize,
}
impl Wake for WakeFlag {
    fn wake(self: Arc<Self>) {
        self.count.fetch_add(1, Ordering::SeqCst);
    }
    fn wake_by_ref(self: &Arc<Self>) {
        self.count.fetch_add(1, Ordering::SeqCst);
    }
}

#[derive(Default)]
pub struct Wakers {
    pub flags: BTreeMap<String, (Arc<WakeFlag>, usize)>,
}
impl Wakers {
    pub fn get(&mut self, name: &str) -> Waker {
        let e = self.flags.entry(name.to_string()).or_insert_with(|| {
            (
                Arc::new(WakeFlag {
                    name: name.to_string(),
                    count: AtomicUsize::new(0),
                }),
                0,
            )
        });
        Waker::from(e.0.clone())
    }
    /// names of the flags that fired since the last call
    pub fn take_woken(&mut self) -> Vec<String> {
        let mut v = Vec::new();
        for (name, (f, seen)) in self.flags.iter_mut() {
            let c = f.count.load(Ordering::SeqCst);
            if c != *seen {
                *seen = c;
                v.push(name.clone());
            }
        }
        v
    }
}

// ---------------------------------------------------------------------------------------
// Payload coding: byte at stream offset `o` written through harness handle `name` is
//   ((name-1) % 8) << 5 | (o % 32)
// so every byte names its writer and its position; the reader side decodes runs.
// ---------------------------------------------------------------------------------------
pub fn payload(name: u32, off: u64, len: usize) -> Vec<u8> {
    (0..len)
        .map(|i| ((((name - 1) % 8) as u8) << 5) | (((off + i as u64) % 32) as u8))
        .collect()
}

/// Decode a byte run: (writer tag 1..8, offset mod 32 of the first byte, contiguous?)
pub fn decode_run(b: &[u8]) -> (u32, u32, bool) {
    if b.is_empty() {
        return (0, 0, true);
    }
    let w = u32::from(b[0] >> 5) + 1;
    let off = u32::from(b[0] & 31);
    let ok = b.iter().enumerate().all(|(i, x)| {
        u32::from(*x >> 5) + 1 == w && u32::from(*x & 31) == (off + i as u32) % 32
    });
    (w, off, ok)
}

pub fn text(b: &[u8]) -> String {
    if b.len() <= 12 && b.iter().all(|c| c.is_ascii_alphanumeric() || *c == b'.' || *c == b'-') {
        String::from_utf8_lossy(b).into_owned()
    } else {
        let mut h: u32 = 2166136261;
        for c in b {
            h = (h ^ u32::from(*c)).wrapping_mul(16777619);
        }
        format!("#{}:{:08x}", b.len(), h)
    }
}

/// Independent decoder of the wire format (written from PROTOCOL.md, not from frame.rs):
/// projects a message to the uniform record the trace specification uses.
pub fn decode_msg(m: &Message) -> Value {
    let base = |op: &str| {
        json!({"op": op, "id": 0, "n": 0, "host": "", "port": 0, "w": 0, "off": 0, "len": 0, "bt": 0, "data": "", "okrun": true})
    };
    match m {
        Message::Ping => base("ping"),
        Message::Pong => base("pong"),
        Message::Close => base("close"),
        Message::Binary(b) => {
            let junk = || base("junk");
            if b.len() < 5 {
                return junk();
            }
            let ver = b[0] >> 4;
            if ver != 7 && ver != 0 {
                return junk();
            }
            let id = u32::from_be_bytes([b[1], b[2], b[3], b[4]]);
            let rest = &b[5..];
            let mut v;
            match b[0] & 0x0f {
                0 => {
                    if rest.len() < 6 {
                        return junk();
                    }
                    v = base("connect");
                    v["n"] = json!(u32::from_be_bytes([rest[0], rest[1], rest[2], rest[3]]));
                    v["port"] = json!(u16::from_be_bytes([rest[4], rest[5]]));
                    v["host"] = json!(text(&rest[6..]));
                }
                1 => {
                    if rest.len() < 4 {
                        return junk();
                    }
                    v = base("ack");
                    v["n"] = json!(u32::from_be_bytes([rest[0], rest[1], rest[2], rest[3]]));
                }
                2 => v = base("reset"),
                3 => v = base("finish"),
                4 => {
                    v = base("push");
                    let (w, off, ok) = decode_run(rest);
                    v["w"] = json!(w);
                    v["off"] = json!(off);
                    v["len"] = json!(rest.len());
                    v["okrun"] = json!(ok);
                }
                5 => {
                    if rest.len() < 3 || (rest[0] != 1 && rest[0] != 3) {
                        return junk();
                    }
                    v = base("bind");
                    v["bt"] = json!(rest[0]);
                    v["port"] = json!(u16::from_be_bytes([rest[1], rest[2]]));
                    v["host"] = json!(text(&rest[3..]));
                }
                6 => {
                    if rest.len() < 3 {
                        return junk();
                    }
                    let hl = rest[0] as usize;
                    if rest.len() < 3 + hl {
                        return junk();
                    }
                    v = base("dgram");
                    v["port"] = json!(u16::from_be_bytes([rest[1], rest[2]]));
                    v["host"] = json!(text(&rest[3..3 + hl]));
                    v["data"] = json!(text(&rest[3 + hl..]));
                }
                _ => return junk(),
            }
            v["id"] = json!(id);
            v
        }
    }
}

fn none_msg() -> Value {
    json!({"op": "none", "id": 0, "n": 0, "host": "", "port": 0, "w": 0, "off": 0, "len": 0, "bt": 0, "data": "", "okrun": true})
}

pub fn decode_item(i: &WireItem) -> Value {
    match i {
        WireItem::Msg(m) => decode_msg(m),
        WireItem::Eos => {
            let mut v = none_msg();
            v["op"] = json!("eos");
            v
        }
        WireItem::Err => {
            let mut v = none_msg();
            v["op"] = json!("err");
            v
        }
    }
}

/// Build a raw message from the uniform record (adversary / scripted peer)
pub fn encode_msg(v: &Value) -> Message {
    let op = v["op"].as_str().unwrap_or("junk");
    let id = v["id"].as_u64().unwrap_or(0) as u32;
    let n = v["n"].as_u64().unwrap_or(0) as u32;
    let port = v["port"].as_u64().unwrap_or(0) as u16;
    let host = v["host"].as_str().unwrap_or("").as_bytes().to_vec();
    let mut b = Vec::new();
    let hdr = |b: &mut Vec<u8>, opc: u8| {
        b.push(0x70 | opc);
        b.extend_from_slice(&id.to_be_bytes());
    };
    match op {
        "ping" => return Message::Ping,
        "pong" => return Message::Pong,
        "close" => return Message::Close,
        "connect" => {
            hdr(&mut b, 0);
            b.extend_from_slice(&n.to_be_bytes());
            b.extend_from_slice(&port.to_be_bytes());
            b.extend_from_slice(&host);
        }
        "ack" => {
            hdr(&mut b, 1);
            b.extend_from_slice(&n.to_be_bytes());
        }
        "reset" => hdr(&mut b, 2),
        "finish" => hdr(&mut b, 3),
        "push" => {
            hdr(&mut b, 4);
            let w = v["w"].as_u64().unwrap_or(1) as u32;
            let off = v["off"].as_u64().unwrap_or(0);
            let len = v["len"].as_u64().unwrap_or(0) as usize;
            b.extend_from_slice(&payload(w.max(1), off, len));
        }
        "bind" => {
            hdr(&mut b, 5);
            b.push(v["bt"].as_u64().unwrap_or(1) as u8);
            b.extend_from_slice(&port.to_be_bytes());
            b.extend_from_slice(&host);
        }
        "dgram" => {
            hdr(&mut b, 6);
            b.push(host.len() as u8);
            b.extend_from_slice(&port.to_be_bytes());
            b.extend_from_slice(&host);
            b.extend_from_slice(v["data"].as_str().unwrap_or("").as_bytes());
        }
        _ => {
            // not a valid frame: unknown version nibble
            b.extend_from_slice(&[0xF9, 0, 0, 0, 1]);
        }
    }
    Message::Binary(Bytes::from(b))
}

// ---------------------------------------------------------------------------------------
// Scripted local side of a bridge (C13): an AsyncBufRead + AsyncWrite whose answers for the next
// poll of the bridge are set by the driver, and which records what the bridge did to it.
// ---------------------------------------------------------------------------------------
#[derive(Clone, Debug)]
pub struct Ans {
    pub k: String,
    pub n: usize,
}
impl Ans {
    pub fn from_json(v: &Value) -> Self {
        Self { k: v["k"].as_str().unwrap_or("pending").to_string(), n: v["n"].as_u64().unwrap_or(0) as usize }
    }
    pub fn pending() -> Self {
        Self { k: "pending".into(), n: 0 }
    }
}
#[derive(Default)]
pub struct LocalState {
    pub tag: u32,
    pub rd: VecDeque<Ans>,
    pub wr: VecDeque<Ans>,
    pub fl: Option<Ans>,
    pub sh: Option<Ans>,
    pub avail: Vec<u8>,
    pub loff: u64,
    pub eof: bool,
    pub written: Vec<Vec<u8>>,
    pub consumed: usize,
    pub shut_calls: usize,
    pub flush_calls: usize,
    pub holds: std::collections::BTreeSet<String>,
}
pub struct ScriptedLocal(pub Arc<Mutex<LocalState>>);

fn io_err() -> std::io::Error {
    std::io::Error::other("scripted local failure")
}

impl tokio::io::AsyncRead for ScriptedLocal {
    fn poll_read(self: Pin<&mut Self>, cx: &mut Context<'_>, buf: &mut ReadBuf<'_>) -> Poll<std::io::Result<()>> {
        use tokio::io::AsyncBufRead;
        let mut this = self;
        let got = match this.as_mut().poll_fill_buf(cx) {
            Poll::Pending => return Poll::Pending,
            Poll::Ready(Err(e)) => return Poll::Ready(Err(e)),
            Poll::Ready(Ok(b)) => b[..b.len().min(buf.remaining())].to_vec(),
        };
        buf.put_slice(&got);
        this.consume(got.len());
        Poll::Ready(Ok(()))
    }
}
impl tokio::io::AsyncBufRead for ScriptedLocal {
    fn poll_fill_buf(self: Pin<&mut Self>, _cx: &mut Context<'_>) -> Poll<std::io::Result<&[u8]>> {
        let this = self.get_mut();
        {
            let mut l = this.0.lock().unwrap();
            if l.avail.is_empty() && !l.eof {
                let a = l.rd.pop_front().unwrap_or_else(Ans::pending);
                match a.k.as_str() {
                    "data" if a.n > 0 => {
                        let (tag, off) = (l.tag, l.loff);
                        l.avail = payload(tag, off, a.n);
                        l.loff += a.n as u64;
                    }
                    "data" | "eof" => l.eof = true,
                    "err" => return Poll::Ready(Err(io_err())),
                    _ => {
                        l.holds.insert("l_rd".into());
                        return Poll::Pending;
                    }
                }
            }
        }
        // hand out the current buffer (empty = end of input)
        let l = this.0.lock().unwrap();
        let ptr = l.avail.as_ptr();
        let len = l.avail.len();
        drop(l);
        // SAFETY-free alternative: copy into a leaked box would leak; instead keep a private copy
        // in the object itself. We reconstruct a slice from the Vec that lives inside the Arc and is
        // only mutated by `consume`/`poll_fill_buf` on this same object, never concurrently.
        Poll::Ready(Ok(unsafe { std::slice::from_raw_parts(ptr, len) }))
    }
    fn consume(self: Pin<&mut Self>, amt: usize) {
        let mut l = self.0.lock().unwrap();
        let amt = amt.min(l.avail.len());
        l.avail.drain(..amt);
        l.consumed += amt;
    }
}
impl AsyncWrite for ScriptedLocal {
    fn poll_write(self: Pin<&mut Self>, _cx: &mut Context<'_>, buf: &[u8]) -> Poll<std::io::Result<usize>> {
        let mut l = self.0.lock().unwrap();
        let a = l.wr.pop_front().unwrap_or_else(Ans::pending);
        match a.k.as_str() {
            "ready" => {
                let k = a.n.max(1).min(buf.len());
                l.written.push(buf[..k].to_vec());
                Poll::Ready(Ok(k))
            }
            "err" => Poll::Ready(Err(io_err())),
            _ => {
                l.holds.insert("l_wr".into());
                Poll::Pending
            }
        }
    }
    fn poll_flush(self: Pin<&mut Self>, _cx: &mut Context<'_>) -> Poll<std::io::Result<()>> {
        let mut l = self.0.lock().unwrap();
        l.flush_calls += 1;
        let a = l.fl.clone().unwrap_or_else(|| Ans { k: "ready".into(), n: 0 });
        match a.k.as_str() {
            "ready" => Poll::Ready(Ok(())),
            "err" => Poll::Ready(Err(io_err())),
            _ => {
                l.holds.insert("l_fl".into());
                Poll::Pending
            }
        }
    }
    fn poll_shutdown(self: Pin<&mut Self>, _cx: &mut Context<'_>) -> Poll<std::io::Result<()>> {
        let mut l = self.0.lock().unwrap();
        l.shut_calls += 1;
        let a = l.sh.clone().unwrap_or_else(|| Ans { k: "ready".into(), n: 0 });
        match a.k.as_str() {
            "ready" => Poll::Ready(Ok(())),
            "err" => Poll::Ready(Err(io_err())),
            _ => {
                l.holds.insert("l_sh".into());
                Poll::Pending
            }
        }
    }
}

pub struct BridgeSlot {
    /// the future is kept after completion (it still owns the stream) until `bridge_drop`
    pub done: bool,
    pub fut: Option<BoxFut<std::io::Result<(usize, usize)>>>,
    pub local: Arc<Mutex<LocalState>>,
}

// ---------------------------------------------------------------------------------------
// Endpoint
// ---------------------------------------------------------------------------------------
pub type Mux = Multiplexor<ScriptRng>;
type BoxFut<T> = Pin<Box<dyn Future<Output = T>>>;

pub struct StreamSlot {
    pub s: MuxStream,
    pub woff: u64,
}

pub struct Endpoint {
    pub name: &'static str,
    pub idx: usize,
    pub mux: Option<Arc<Mux>>,
    pub task: Option<BoxFut<penguin_mux::Result<()>>>,
    pub task_res: Option<String>,
    pub streams: BTreeMap<u32, StreamSlot>,
    pub next_h: u32,
    pub opens: BTreeMap<u32, BoxFut<penguin_mux::Result<MuxStream>>>,
    pub binds: BTreeMap<u32, BoxFut<penguin_mux::Result<bool>>>,
    pub breqs: BTreeMap<u32, BindRequest<'static>>,
    pub next_r: u32,
    pub bridges: BTreeMap<u32, BridgeSlot>,
    pub script: Arc<Mutex<VecDeque<u32>>>,
    pub drawn: Arc<Mutex<Vec<u32>>>,
    pub cfg: Value,
}

#[derive(Clone, Debug)]
pub struct Cfg {
    pub rwnd: u32,
    pub thr: u32,
    pub accept_cap: usize,
    pub dg_cap: usize,
    pub bind_cap: usize,
    pub retries: usize,
    /// keepalive interval / timeout in seconds as given to the options API (0 = not set)
    pub ka_i: u64,
    pub ka_t: u64,
}
impl Cfg {
    pub fn to_json(&self) -> Value {
        json!({"rwnd": self.rwnd, "thr": self.thr, "acceptCap": self.accept_cap, "dgCap": self.dg_cap,
               "bindCap": self.bind_cap, "retries": self.retries, "kaI": self.ka_i, "kaT": self.ka_t})
    }
    pub fn from_json(v: &Value) -> Self {
        Self {
            rwnd: v["rwnd"].as_u64().unwrap_or(2) as u32,
            thr: v["thr"].as_u64().unwrap_or(2) as u32,
            accept_cap: v["acceptCap"].as_u64().unwrap_or(1) as usize,
            dg_cap: v["dgCap"].as_u64().unwrap_or(1) as usize,
            bind_cap: v["bindCap"].as_u64().unwrap_or(0) as usize,
            retries: v["retries"].as_u64().unwrap_or(2) as usize,
            ka_i: v["kaI"].as_u64().unwrap_or(0),
            ka_t: v["kaT"].as_u64().unwrap_or(0),
        }
    }
    pub fn options(&self) -> Options {
        Options::new()
            .keepalive_interval(std::time::Duration::from_secs(self.ka_i).into())
            .keepalive_timeout(std::time::Duration::from_secs(self.ka_t).into())
            .rwnd(self.rwnd)
            .default_rwnd_threshold(self.thr)
            .stream_buffer_size(self.accept_cap)
            .datagram_buffer_size(self.dg_cap)
            .bind_buffer_size(self.bind_cap)
            .max_flow_id_retries(self.retries)
    }
}

pub struct Sim {
    pub link: Arc<Mutex<Link>>,
    pub eps: Vec<Endpoint>,
    pub wakers: Wakers,
    pub out: Vec<Value>,
    pub step: u64,
    /// number of real endpoints (2 = pair mode, 1 = endpoint "A" against a scripted raw peer "B")
    pub real: usize,
    pub dead: bool,
    pub cur_cmd: Value,
    pub start: tokio::time::Instant,
}

fn err_kind(e: &penguin_mux::Error) -> &'static str {
    use penguin_mux::Error as E;
    match e {
        E::SendStreamToClient => "sendstream",
        E::Closed => "closed",
        E::FlowIdRejected => "rejected",
        E::KeepaliveTimeout => "keepalive",
        E::WebSocket(_) => "ws",
        E::DatagramHostTooLong => "toolong",
        E::InvalidFrame(_) => "invalid",
        E::UnsupportedOperation => "unsupported",
        E::PeerUnsupportedOperation => "peerunsupported",
        E::TextMessage => "text",
        E::ConnAckGone => "connackgone",
        E::ChannelClosed(_) => "channelclosed",
        _ => "other",
    }
}

fn flow_id_of(s: &MuxStream) -> u32 {
    // `flow_id` is not public; the Debug representation prints it as 8 hex digits
    let d = format!("{s:?}");
    d.split("flow_id: ")
        .nth(1)
        .and_then(|r| r.get(0..8))
        .and_then(|h| u32::from_str_radix(h, 16).ok())
        .unwrap_or(u32::MAX)
}

impl Sim {
    pub fn new(cfgs: [Cfg; 2], real: usize) -> Self {
        let link = Arc::new(Mutex::new(Link::new()));
        let mut eps = Vec::new();
        for (i, name) in ["A", "B"].iter().enumerate() {
            let script = Arc::new(Mutex::new(VecDeque::new()));
            let drawn = Arc::new(Mutex::new(Vec::new()));
            let (mux, task) = if i < real {
                let rng = ScriptRng {
                    script: script.clone(),
                    drawn: drawn.clone(),
                    fallback: 1000 * (i as u32 + 1),
                };
                let ws = SimWs {
                    me: i,
                    link: link.clone(),
                };
                let (mux, td) = Mux::new_detailed::<_, VClock>(ws, cfgs[i].options(), rng);
                let t: BoxFut<penguin_mux::Result<()>> = Box::pin(td.into_task());
                (Some(Arc::new(mux)), Some(t))
            } else {
                (None, None)
            };
            eps.push(Endpoint {
                name,
                idx: i,
                mux,
                task,
                task_res: None,
                streams: BTreeMap::new(),
                next_h: 1,
                opens: BTreeMap::new(),
                binds: BTreeMap::new(),
                breqs: BTreeMap::new(),
                next_r: 1,
                bridges: BTreeMap::new(),
                script,
                drawn,
                cfg: cfgs[i].to_json(),
            });
        }
        let mut s = Self {
            link,
            eps,
            wakers: Wakers::default(),
            out: Vec::new(),
            step: 0,
            real,
            dead: false,
            cur_cmd: Value::Null,
            start: tokio::time::Instant::now(),
        };
        let ev = json!({"ev": "reset", "cfg": {"A": s.eps[0].cfg, "B": s.eps[1].cfg}, "real": real});
        LOG.lock().unwrap().push(ev.to_string());
        s.out.push(ev);
        s
    }

    fn ei(e: &str) -> usize {
        if e == "A" { 0 } else { 1 }
    }

    fn emit(&mut self, mut ev: Value) {
        self.step += 1;
        if ev["ev"] == "dg_send" {
            ev["cmd"] = self.cur_cmd.clone();
        }
        let woke = self.wakers.take_woken();
        ev["woke"] = json!(woke);
        LOG.lock().unwrap().push(ev.to_string());
        self.out.push(ev);
    }

    fn take_draws(&mut self, i: usize) -> Vec<u32> {
        std::mem::take(&mut *self.eps[i].drawn.lock().unwrap())
    }

    /// Execute one command; appends exactly one event (or none if the command is not applicable).
    pub fn exec(&mut self, cmd: &Value) -> bool {
        if self.dead {
            return false;
        }
        self.cur_cmd = cmd.clone();
        *CUR.lock().unwrap() = cmd.to_string();
        IN_STEP.store(true, Ordering::SeqCst);
        PROGRESS.fetch_add(1, Ordering::SeqCst);
        let r = catch_unwind(AssertUnwindSafe(|| self.exec_inner(cmd)));
        IN_STEP.store(false, Ordering::SeqCst);
        match r {
            Ok(b) => b,
            Err(p) => {
                let msg = p
                    .downcast_ref::<String>()
                    .cloned()
                    .or_else(|| p.downcast_ref::<&str>().map(|s| (*s).to_string()))
                    .unwrap_or_default();
                // the message a panicking task poll had taken from the transport tells which service the panic is about
                let rcv = if cmd["op"] == "task" {
                    let i = Self::ei(cmd["e"].as_str().unwrap_or("A"));
                    let l = self.link.lock().unwrap_or_else(std::sync::PoisonError::into_inner);
                    l.ends[i].rcv_log.as_ref().map(decode_item).unwrap_or_else(none_msg)
                } else {
                    none_msg()
                };
                self.emit(json!({"ev": "panic", "cmd": cmd, "panic": msg, "rcv": rcv}));
                self.dead = true;
                true
            }
        }
    }

    fn exec_inner(&mut self, cmd: &Value) -> bool {
        let op = cmd["op"].as_str().unwrap_or("");
        let e = cmd["e"].as_str().unwrap_or("A").to_string();
        let i = Self::ei(&e);
        match op {
            "open" | "open_poll" => {
                let c = cmd["c"].as_u64().unwrap() as u32;
                if op == "open" {
                    let Some(mux) = self.eps[i].mux.clone() else { return false };
                    if self.eps[i].opens.contains_key(&c) {
                        return false;
                    }
                    if let Some(d) = cmd["draws"].as_array() {
                        let mut s = self.eps[i].script.lock().unwrap();
                        for x in d {
                            s.push_back(x.as_u64().unwrap() as u32);
                        }
                    }
                    let host = cmd["host"].as_str().unwrap_or("").as_bytes().to_vec();
                    let port = cmd["port"].as_u64().unwrap_or(0) as u16;
                    let fut: BoxFut<penguin_mux::Result<MuxStream>> =
                        Box::pin(async move { mux.new_stream_channel(&host, port).await });
                    self.eps[i].opens.insert(c, fut);
                } else {
                    if !self.eps[i].opens.contains_key(&c) {
                        return false;
                    }
                    if let Some(d) = cmd["draws"].as_array() {
                        let mut s = self.eps[i].script.lock().unwrap();
                        for x in d {
                            s.push_back(x.as_u64().unwrap() as u32);
                        }
                    }
                }
                let w = self.wakers.get(&format!("c:{e}:{c}"));
                let mut cx = Context::from_waker(&w);
                let p = self.eps[i].opens.get_mut(&c).unwrap().as_mut().poll(&mut cx);
                let draws = self.take_draws(i);
                let (res, h) = match p {
                    Poll::Pending => ("pending".to_string(), 0),
                    Poll::Ready(r) => {
                        self.eps[i].opens.remove(&c);
                        match r {
                            Ok(s) => {
                                let h = self.eps[i].next_h;
                                self.eps[i].next_h += 1;
                                self.eps[i].streams.insert(h, StreamSlot { s, woff: 0 });
                                ("ok".to_string(), h)
                            }
                            Err(er) => (err_kind(&er).to_string(), 0),
                        }
                    }
                };
                let id = if h != 0 { flow_id_of(&self.eps[i].streams[&h].s) } else { 0 };
                self.emit(json!({"ev": op, "e": e, "c": c, "host": cmd["host"].as_str().unwrap_or(""),
                    "port": cmd["port"].as_u64().unwrap_or(0), "draws": draws, "res": res, "h": h, "id": id}));
                true
            }
            "cancel" => {
                // the application gives up a pending stream / bind request: the future is dropped
                let c = cmd["c"].as_u64().unwrap() as u32;
                let had = self.eps[i].opens.remove(&c).is_some() || self.eps[i].binds.remove(&c).is_some();
                if !had {
                    return false;
                }
                self.emit(json!({"ev": "cancel", "e": e, "c": c, "res": "ok"}));
                true
            }
            "accept" => {
                let Some(mux) = self.eps[i].mux.clone() else { return false };
                let w = self.wakers.get(&format!("acc:{e}"));
                let mut cx = Context::from_waker(&w);
                let mut fut = Box::pin(mux.accept_stream_channel());
                let p = fut.as_mut().poll(&mut cx);
                drop(fut);
                let ev = match p {
                    Poll::Pending => json!({"ev": "accept", "e": e, "res": "pending", "h": 0, "id": 0, "host": "", "port": 0}),
                    Poll::Ready(Ok(s)) => {
                        let h = self.eps[i].next_h;
                        self.eps[i].next_h += 1;
                        let ev = json!({"ev": "accept", "e": e, "res": "ok", "h": h, "id": flow_id_of(&s),
                            "host": text(&s.dest_host), "port": s.dest_port});
                        self.eps[i].streams.insert(h, StreamSlot { s, woff: 0 });
                        ev
                    }
                    Poll::Ready(Err(er)) => json!({"ev": "accept", "e": e, "res": err_kind(&er), "h": 0, "id": 0, "host": "", "port": 0}),
                };
                self.emit(ev);
                true
            }
            "write" => {
                let h = cmd["h"].as_u64().unwrap() as u32;
                let lens: Vec<usize> = match cmd["lens"].as_array() {
                    Some(a) => a.iter().map(|x| x.as_u64().unwrap() as usize).collect(),
                    None => vec![cmd["len"].as_u64().unwrap_or(0) as usize],
                };
                let vectored = cmd["vectored"].as_bool().unwrap_or(lens.len() > 1);
                let total: usize = lens.iter().sum();
                let w = self.wakers.get(&format!("w:{e}:{h}"));
                let mut cx = Context::from_waker(&w);
                let Some(slot) = self.eps[i].streams.get_mut(&h) else { return false };
                let data = payload(h, slot.woff, total);
                let p = if vectored {
                    let mut parts = Vec::new();
                    let mut o = 0;
                    for l in &lens {
                        parts.push(std::io::IoSlice::new(&data[o..o + l]));
                        o += l;
                    }
                    Pin::new(&mut slot.s).poll_write_vectored(&mut cx, &parts)
                } else {
                    Pin::new(&mut slot.s).poll_write(&mut cx, &data)
                };
                let (res, n) = match p {
                    Poll::Pending => ("pending".to_string(), 0),
                    Poll::Ready(Ok(n)) => {
                        slot.woff += n as u64;
                        ("ok".to_string(), n)
                    }
                    Poll::Ready(Err(er)) => {
                        if er.kind() == std::io::ErrorKind::BrokenPipe {
                            ("broken".to_string(), 0)
                        } else {
                            (format!("ioerr:{:?}", er.kind()), 0)
                        }
                    }
                };
                self.emit(json!({"ev": "write", "e": e, "h": h, "len": total, "lens": lens, "parts": lens.len(), "vectored": vectored, "res": res, "n": n}));
                true
            }
            "read" => {
                let h = cmd["h"].as_u64().unwrap() as u32;
                let max = cmd["max"].as_u64().unwrap_or(1) as usize;
                // `pre`: bytes already in the caller's ReadBuf (as read_exact / copy loops have);
                // `via`: "read" = AsyncRead::poll_read, "buf" = AsyncBufRead::poll_fill_buf + consume
                let pre = cmd["pre"].as_u64().unwrap_or(0) as usize;
                let via = cmd["via"].as_str().unwrap_or("read").to_string();
                let w = self.wakers.get(&format!("r:{e}:{h}"));
                let mut cx = Context::from_waker(&w);
                let Some(slot) = self.eps[i].streams.get_mut(&h) else { return false };
                let mk = |res: &str, got: &[u8]| {
                    let (w, off, ok) = decode_run(got);
                    json!({"ev": "read", "e": e, "h": h, "max": max, "pre": pre, "via": via, "res": res, "n": got.len(), "w": w, "off": off, "okrun": ok})
                };
                let ev = if via == "buf" {
                    use tokio::io::AsyncBufRead;
                    let p = Pin::new(&mut slot.s).poll_fill_buf(&mut cx);
                    match p {
                        Poll::Pending => mk("pending", &[]),
                        Poll::Ready(Ok(sl)) => {
                            if sl.is_empty() {
                                mk("eof", &[])
                            } else {
                                let n = sl.len().min(max);
                                let got = sl[..n].to_vec();
                                Pin::new(&mut slot.s).consume(n);
                                mk("data", &got)
                            }
                        }
                        Poll::Ready(Err(er)) => mk(&format!("ioerr:{:?}", er.kind()), &[]),
                    }
                } else {
                    let mut buf = vec![0xEEu8; pre + max];
                    let mut rb = ReadBuf::new(&mut buf);
                    rb.put_slice(&vec![0xEEu8; pre]);
                    let p = Pin::new(&mut slot.s).poll_read(&mut cx, &mut rb);
                    match p {
                        Poll::Pending => mk("pending", &[]),
                        Poll::Ready(Ok(())) => {
                            let got = rb.filled()[pre.min(rb.filled().len())..].to_vec();
                            if rb.filled().len() < pre || rb.filled()[..pre].iter().any(|b| *b != 0xEE) {
                                mk("clobbered", &got)
                            } else if got.is_empty() {
                                mk("eof", &[])
                            } else {
                                mk("data", &got)
                            }
                        }
                        Poll::Ready(Err(er)) => mk(&format!("ioerr:{:?}", er.kind()), &[]),
                    }
                };
                self.emit(ev);
                true
            }
            "shutdown" => {
                let h = cmd["h"].as_u64().unwrap() as u32;
                let w = self.wakers.get(&format!("w:{e}:{h}"));
                let mut cx = Context::from_waker(&w);
                let Some(slot) = self.eps[i].streams.get_mut(&h) else { return false };
                let p = Pin::new(&mut slot.s).poll_shutdown(&mut cx);
                let res = match p {
                    Poll::Pending => "pending".to_string(),
                    Poll::Ready(Ok(())) => "ok".to_string(),
                    Poll::Ready(Err(er)) => format!("ioerr:{:?}", er.kind()),
                };
                self.emit(json!({"ev": "shutdown", "e": e, "h": h, "res": res}));
                true
            }
            "drop" => {
                let h = cmd["h"].as_u64().unwrap() as u32;
                if self.eps[i].streams.remove(&h).is_none() {
                    return false;
                }
                self.emit(json!({"ev": "drop", "e": e, "h": h, "res": "ok"}));
                true
            }
            "drop_mux" => {
                if self.eps[i].mux.is_none() {
                    return false;
                }
                // pending calls borrow the multiplexor: cancel them first
                self.eps[i].opens.clear();
                self.eps[i].binds.clear();
                let m = self.eps[i].mux.take().unwrap();
                assert_eq!(Arc::strong_count(&m), 1);
                drop(m);
                self.emit(json!({"ev": "drop_mux", "e": e, "res": "ok"}));
                true
            }
            "dg_send" => {
                let Some(mux) = self.eps[i].mux.clone() else { return false };
                let id = cmd["id"].as_u64().unwrap_or(0) as u32;
                let hostlen = cmd["hostlen"].as_u64();
                let host: Vec<u8> = match hostlen {
                    Some(n) => vec![b'x'; n as usize],
                    None => cmd["host"].as_str().unwrap_or("").as_bytes().to_vec(),
                };
                let port = cmd["port"].as_u64().unwrap_or(0) as u16;
                let data: Vec<u8> = match cmd["datalen"].as_u64() {
                    Some(n) => (0..n).map(|k| (k * 7 + 3) as u8).collect(),
                    None => cmd["data"].as_str().unwrap_or("").as_bytes().to_vec(),
                };
                let long = host.len() > 255;
                let dg = Datagram {
                    flow_id: id,
                    target_host: Bytes::from(host.clone()),
                    target_port: port,
                    data: Bytes::from(data.clone()),
                };
                let w = self.wakers.get(&format!("dgs:{e}"));
                let mut cx = Context::from_waker(&w);
                let mut fut = Box::pin(mux.send_datagram(dg));
                let p = fut.as_mut().poll(&mut cx);
                drop(fut);
                let res = match p {
                    Poll::Pending => "pending".to_string(),
                    Poll::Ready(Ok(())) => "ok".to_string(),
                    Poll::Ready(Err(er)) => err_kind(&er).to_string(),
                };
                self.emit(json!({"ev": "dg_send", "e": e, "id": id, "host": text(&host), "port": port, "data": text(&data), "long": long, "res": res}));
                true
            }
            "dg_get" => {
                let Some(mux) = self.eps[i].mux.clone() else { return false };
                let w = self.wakers.get(&format!("dg:{e}"));
                let mut cx = Context::from_waker(&w);
                let mut fut = Box::pin(mux.get_datagram());
                let p = fut.as_mut().poll(&mut cx);
                drop(fut);
                let ev = match p {
                    Poll::Pending => json!({"ev": "dg_get", "e": e, "res": "pending", "id": 0, "host": "", "port": 0, "data": ""}),
                    Poll::Ready(Ok(d)) => json!({"ev": "dg_get", "e": e, "res": "ok", "id": d.flow_id, "host": text(&d.target_host), "port": d.target_port, "data": text(&d.data)}),
                    Poll::Ready(Err(er)) => json!({"ev": "dg_get", "e": e, "res": err_kind(&er), "id": 0, "host": "", "port": 0, "data": ""}),
                };
                self.emit(ev);
                true
            }
            "bind" | "bind_poll" => {
                let c = cmd["c"].as_u64().unwrap() as u32;
                if op == "bind" {
                    let Some(mux) = self.eps[i].mux.clone() else { return false };
                    if self.eps[i].binds.contains_key(&c) || self.eps[i].opens.contains_key(&c) {
                        return false;
                    }
                    if let Some(d) = cmd["draws"].as_array() {
                        let mut s = self.eps[i].script.lock().unwrap();
                        for x in d {
                            s.push_back(x.as_u64().unwrap() as u32);
                        }
                    }
                    let host = cmd["host"].as_str().unwrap_or("").as_bytes().to_vec();
                    let port = cmd["port"].as_u64().unwrap_or(0) as u16;
                    let bt = if cmd["bt"].as_u64().unwrap_or(1) == 3 { BindType::Datagram } else { BindType::Stream };
                    let fut: BoxFut<penguin_mux::Result<bool>> =
                        Box::pin(async move { mux.request_bind(&host, port, bt).await });
                    self.eps[i].binds.insert(c, fut);
                } else if !self.eps[i].binds.contains_key(&c) {
                    return false;
                }
                let w = self.wakers.get(&format!("c:{e}:{c}"));
                let mut cx = Context::from_waker(&w);
                let p = self.eps[i].binds.get_mut(&c).unwrap().as_mut().poll(&mut cx);
                let draws = self.take_draws(i);
                let res = match p {
                    Poll::Pending => "pending".to_string(),
                    Poll::Ready(r) => {
                        self.eps[i].binds.remove(&c);
                        match r {
                            Ok(true) => "true".to_string(),
                            Ok(false) => "false".to_string(),
                            Err(er) => err_kind(&er).to_string(),
                        }
                    }
                };
                self.emit(json!({"ev": op, "e": e, "c": c, "bt": cmd["bt"].as_u64().unwrap_or(1),
                    "host": cmd["host"].as_str().unwrap_or(""), "port": cmd["port"].as_u64().unwrap_or(0),
                    "draws": draws, "res": res}));
                true
            }
            "next_bind" => {
                let Some(mux) = self.eps[i].mux.clone() else { return false };
                let w = self.wakers.get(&format!("nb:{e}"));
                let mut cx = Context::from_waker(&w);
                let mut fut = Box::pin(mux.next_bind_request());
                let p = fut.as_mut().poll(&mut cx);
                drop(fut);
                let ev = match p {
                    Poll::Pending => json!({"ev": "next_bind", "e": e, "res": "pending", "r": 0, "id": 0, "bt": 0, "host": "", "port": 0}),
                    Poll::Ready(Ok(rq)) => {
                        let r = self.eps[i].next_r;
                        self.eps[i].next_r += 1;
                        let ev = json!({"ev": "next_bind", "e": e, "res": "ok", "r": r, "id": rq.flow_id(),
                            "bt": rq.bind_type() as u8, "host": text(rq.host()), "port": rq.port()});
                        self.eps[i].breqs.insert(r, rq);
                        ev
                    }
                    Poll::Ready(Err(er)) => json!({"ev": "next_bind", "e": e, "res": err_kind(&er), "r": 0, "id": 0, "bt": 0, "host": "", "port": 0}),
                };
                self.emit(ev);
                true
            }
            "bind_reply" => {
                let r = cmd["r"].as_u64().unwrap() as u32;
                let acc = cmd["accept"].as_bool().unwrap_or(true);
                let Some(rq) = self.eps[i].breqs.get(&r) else { return false };
                let res = match rq.reply(acc) {
                    Ok(()) => "ok".to_string(),
                    Err(er) => err_kind(&er).to_string(),
                };
                self.emit(json!({"ev": "bind_reply", "e": e, "r": r, "accept": acc, "res": res}));
                true
            }
            "bind_drop" => {
                let r = cmd["r"].as_u64().unwrap() as u32;
                if self.eps[i].breqs.remove(&r).is_none() {
                    return false;
                }
                self.emit(json!({"ev": "bind_drop", "e": e, "r": r, "res": "ok"}));
                true
            }
            "bridge_start" => {
                let h = cmd["h"].as_u64().unwrap() as u32;
                let Some(slot) = self.eps[i].streams.remove(&h) else { return false };
                let b = self.eps[i].bridges.len() as u32 + 1;
                let local = Arc::new(Mutex::new(LocalState { tag: h, loff: slot.woff, ..LocalState::default() }));
                let fut: BoxFut<std::io::Result<(usize, usize)>> =
                    Box::pin(slot.s.into_copy_bidirectional_with_buf(ScriptedLocal(local.clone())));
                self.eps[i].bridges.insert(b, BridgeSlot { done: false, fut: Some(fut), local });
                self.emit(json!({"ev": "bridge_start", "e": e, "h": h, "b": b}));
                true
            }
            "bridge_poll" => {
                let b = cmd["b"].as_u64().unwrap() as u32;
                let env = cmd["env"].clone();
                let Some(br) = self.eps[i].bridges.get_mut(&b) else { return false };
                if br.fut.is_none() || br.done {
                    return false;
                }
                {
                    let mut l = br.local.lock().unwrap();
                    l.rd = env["rd"].as_array().map(|a| a.iter().map(Ans::from_json).collect()).unwrap_or_default();
                    l.wr = env["wr"].as_array().map(|a| a.iter().map(Ans::from_json).collect()).unwrap_or_default();
                    l.fl = Some(Ans::from_json(&env["fl"]));
                    l.sh = Some(Ans::from_json(&env["sh"]));
                    l.written.clear();
                    l.consumed = 0;
                    l.shut_calls = 0;
                    l.flush_calls = 0;
                    l.holds.clear();
                }
                let w = self.wakers.get(&format!("br:{e}:{b}"));
                let mut cx = Context::from_waker(&w);
                let p = br.fut.as_mut().unwrap().as_mut().poll(&mut cx);
                let (res, rn, wn) = match p {
                    Poll::Pending => ("pending".to_string(), 0, 0),
                    Poll::Ready(Ok((r, wv))) => {
                        br.done = true;
                        ("ok".to_string(), r, wv)
                    }
                    Poll::Ready(Err(_)) => {
                        br.done = true;
                        ("err".to_string(), 0, 0)
                    }
                };
                let l = br.local.lock().unwrap();
                let lw: Vec<Value> = l
                    .written
                    .iter()
                    .map(|x| {
                        let (w, off, ok) = decode_run(x);
                        json!({"w": w, "off": off, "n": x.len(), "okrun": ok})
                    })
                    .collect();
                let holds: Vec<String> = l.holds.iter().cloned().collect();
                let ev = json!({"ev": "bridge_poll", "e": e, "b": b, "env": env, "res": res, "rn": rn, "wn": wn,
                    "lw": lw, "lc": l.consumed, "shut": l.shut_calls, "fl": l.flush_calls.min(1), "holds": holds});
                drop(l);
                self.emit(ev);
                true
            }
            "bridge_drop" => {
                let b = cmd["b"].as_u64().unwrap() as u32;
                let Some(br) = self.eps[i].bridges.get_mut(&b) else { return false };
                if br.fut.is_none() {
                    return false;
                }
                br.fut = None;
                self.emit(json!({"ev": "bridge_drop", "e": e, "b": b, "res": "ok"}));
                true
            }
            "task" => {
                let gr = cmd["gr"].as_u64().unwrap_or(0) as u32;
                let gs = cmd["gs"].as_u64().unwrap_or(0) as u32;
                let gf = cmd["gf"].as_u64().unwrap_or(1) as u32;
                if self.eps[i].task.is_none() {
                    return false;
                }
                {
                    let mut l = self.link.lock().unwrap();
                    l.ends[i].recv_grant = gr;
                    l.ends[i].send_grant = gs;
                    l.ends[i].flush_grant = gf > 0;
                    l.ends[i].sent_log.clear();
                    l.ends[i].rcv_log = None;
                }
                let w = self.wakers.get(&format!("task:{e}"));
                let mut cx = Context::from_waker(&w);
                let p = self.eps[i].task.as_mut().unwrap().as_mut().poll(&mut cx);
                let res = match p {
                    Poll::Pending => "pending".to_string(),
                    Poll::Ready(r) => {
                        self.eps[i].task = None;
                        let k = match r {
                            Ok(()) => "ok".to_string(),
                            Err(er) => err_kind(&er).to_string(),
                        };
                        self.eps[i].task_res = Some(k.clone());
                        // the WebSocket object is destroyed with the task: the transport closes and
                        // the peer's source ends after whatever is still in flight
                        {
                            let mut l = self.link.lock().unwrap();
                            l.ends[i].unflushed.clear();
                            l.ends[i].wire.push_back(WireItem::Eos);
                        }
                        k
                    }
                };
                let (sent, rcv) = {
                    let mut l = self.link.lock().unwrap();
                    l.ends[i].recv_grant = 0;
                    l.ends[i].send_grant = 0;
                    let sent: Vec<Value> = l.ends[i].sent_log.iter().map(decode_msg).collect();
                    let rcv = l.ends[i].rcv_log.as_ref().map(decode_item).unwrap_or_else(none_msg);
                    (sent, rcv)
                };
                self.emit(json!({"ev": "task", "e": e, "gr": gr, "gs": gs, "gf": gf, "rcv": rcv, "sent": sent, "res": res}));
                true
            }
            "advance" => {
                // virtual time passes; the timer driver runs, so an interval that is due wakes its task
                let d = cmd["d"].as_u64().unwrap_or(1);
                rt().block_on(async { tokio::time::advance(std::time::Duration::from_secs(d)).await });
                let ms = tokio::time::Instant::now().duration_since(self.start).as_millis() as u64;
                self.emit(json!({"ev": "advance", "d": d, "t": ms / 1000, "frac": ms % 1000}));
                true
            }
            "fault" => {
                let kind = cmd["kind"].as_str().unwrap_or("");
                {
                    let mut l = self.link.lock().unwrap();
                    match kind {
                        // "cutsrcs": the same failure on a transport that stays silent after the error instead of
                        // reporting the end of the stream (the specification does not distinguish the two: nothing may
                        // be read after an error)
                        "cutsrc" | "cutsrcs" => {
                            if l.ends[i].fused || l.ends[i].mute {
                                return false;
                            }
                            l.ends[i].err_then_silent = kind == "cutsrcs";
                            l.ends[1 - i].wire.clear();
                            l.ends[1 - i].wire.push_back(WireItem::Err);
                        }
                        "endsrc" => {
                            if l.ends[i].fused || l.ends[i].mute {
                                return false;
                            }
                            l.ends[1 - i].wire.push_back(WireItem::Eos);
                        }
                        "cutsink" => {
                            if l.ends[i].sink != SinkState::Open {
                                return false;
                            }
                            l.ends[i].sink = SinkState::Cut;
                        }
                        "softcut" => {
                            if l.ends[i].sink != SinkState::Open {
                                return false;
                            }
                            l.ends[i].sink = SinkState::SoftCut;
                        }
                        _ => return false,
                    }
                }
                self.emit(json!({"ev": "fault", "e": e, "kind": kind}));
                true
            }
            "inject" => {
                // a message appears on the link towards endpoint e
                let m = encode_msg(&cmd["m"]);
                let dec = decode_msg(&m);
                {
                    let mut l = self.link.lock().unwrap();
                    l.ends[1 - i].wire.push_back(WireItem::Msg(m));
                }
                self.emit(json!({"ev": "inject", "e": e, "m": dec}));
                true
            }
            "take" => {
                // scripted raw peer (endpoint without a multiplexor) takes the next message addressed to it
                let item = {
                    let mut l = self.link.lock().unwrap();
                    l.ends[1 - i].wire.pop_front()
                };
                let Some(item) = item else { return false };
                self.emit(json!({"ev": "take", "e": e, "m": decode_item(&item)}));
                true
            }
            _ => false,
        }
    }

    // ---------------------------------------------------------------------------------
    // Introspection for schedule generators (harness-side state only)
    // ---------------------------------------------------------------------------------
    pub fn wire_len(&self, i: usize) -> usize {
        self.link.lock().unwrap().ends[i].wire.len()
    }
    pub fn task_alive(&self, i: usize) -> bool {
        self.eps[i].task.is_some()
    }
}
