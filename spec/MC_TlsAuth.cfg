\* C17 thorough: the 72 cells of the matrix + every interleaving of <= 3 connections, <= 3 reloads, <= 3 uses,
\* with and without mutual TLS (duplex scripts) + the real-server scripts: <= 3 connections (each presenting the
\* trusted client certificate, none, or one of another CA) x <= 2 reloads x <= 2 uses, with and without mutual TLS
SPECIFICATION Spec
CONSTANTS
  Mode = "swap"
  MaxConn = 3
  MaxReload = 3
  MaxUse = 3
  Mtls = {FALSE, TRUE}
  RMaxConn = 3
  RMaxReload = 2
  RMaxUse = 2
  RealMtls = {FALSE, TRUE}
INVARIANTS TypeOK Undisturbed Fresh ConfigKept Authenticated Emit
CHECK_DEADLOCK FALSE
