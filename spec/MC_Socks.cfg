\* C18 thorough: bounded-exhaustive case enumeration (see MC_Socks.tla)
SPECIFICATION Spec
CONSTANTS
  CmdPort <- CmdPortT
  DomShort = {0, 1, 2, 3, 4, 5}
  DomLong = {63, 64, 127, 128, 253, 254, 255}
  Fill5 = {97, 0, 46, 255}
  UidShort = {0, 1, 2, 3}
  UidLong = {127, 255, 290}
  BadAtyp = {0, 2, 5, 6, 127, 128, 255}
  BadVer = {0, 1, 3, 4, 6, 255}
  BadRsv = {1, 128, 255}
  Ports = {0, 1, 80, 255, 256, 4660, 65280, 65535}
  PayLong = {4, 64, 280}
  Reps = {0, 1, 2, 3, 4, 5, 6, 7, 8, 9, 90, 255}
INVARIANTS TypeOK Laws UdpTheorem Emit
CHECK_DEADLOCK FALSE
