\* C19 part A, quick: initial 1..3, max 1..6, mult 1..3, max_count 0..3; op sequences to length 6
SPECIFICATION Spec
CONSTANTS
  Initials = {1, 2, 3}
  Maxes = {1, 2, 3, 4, 5, 6}
  Mults = {1, 2, 3}
  MaxCounts = {0, 1, 2, 3}
  MaxOps = 6
INVARIANTS TypeOK NoneExactly DelayLaw Bounded Monotone RestartsShortest ReplayAgrees Emit
CHECK_DEADLOCK FALSE
