#!/usr/bin/env python3
"""Convert (one trace of) a simulator ndjson trace back into a schedule for `mux_sim script`.
usage: trace2sched.py <trace.ndjson> [k]   -- k = index of the trace inside a batch (0-based, default 0)
Every event carries the arguments of the command that produced it, so this is a projection."""
import json, sys

KEEP = {
    "open": ["e", "c", "host", "port", "draws"], "open_poll": ["e", "c", "draws"],
    "accept": ["e"], "write": ["e", "h", "len", "lens", "vectored"], "read": ["e", "h", "max", "pre", "via"],
    "shutdown": ["e", "h"], "drop": ["e", "h"], "drop_mux": ["e"],
    "dg_send": ["e", "id", "port"], "dg_get": ["e"],
    "bind": ["e", "c", "bt", "host", "port", "draws"], "bind_poll": ["e", "c"], "next_bind": ["e"],
    "bind_reply": ["e", "r", "accept"], "bind_drop": ["e", "r"],
    "task": ["e", "gr", "gs", "gf"], "bridge_start": ["e", "h"], "bridge_poll": ["e", "b", "env"], "bridge_drop": ["e", "b"], "fault": ["e", "kind"], "advance": ["d"], "inject": ["e", "m"], "take": ["e"],
}

def split(lines):
    traces, cur = [], None
    for l in lines:
        r = json.loads(l)
        if r["ev"] == "reset":
            cur = {"cfg": r["cfg"], "real": r.get("real", 2), "cmds": []}
            traces.append(cur)
            continue
        ev = r["ev"]
        if ev == "panic":
            r = r["cmd"]; ev = r["op"]
        if ev == "quiesce":
            continue
        cmd = {"op": ev}
        for k in KEEP.get(ev, []):
            if k in r:
                cmd[k] = r[k]
        if "cmd" in r and isinstance(r["cmd"], dict):
            for k, v in r["cmd"].items():
                cmd.setdefault(k, v)
        cur["cmds"].append(cmd)
    return traces

if __name__ == "__main__":
    tr = split(open(sys.argv[1]))
    k = int(sys.argv[2]) if len(sys.argv) > 2 else 0
    json.dump(tr[k], sys.stdout)
