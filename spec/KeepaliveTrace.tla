--------------------------- MODULE KeepaliveTrace ---------------------------
(***************************************************************************)
(* Validates virtual-time traces of the real connection task               *)
(* (harness/src/bin/keepalive_sim.rs) against the clauses of C16 as        *)
(* defined in Keepalive.tla.  The trace is a batch of cases; each case is  *)
(* folded event by event into the history (send times, planned arrival     *)
(* times, Pongs received, exit time) and the clauses are evaluated at the  *)
(* `exit` and `end` events.  A rejected event is recorded with the name of *)
(* the clause that failed and validation continues with the next case.     *)
(***************************************************************************)
EXTENDS KeepaliveDefs, Json, IOUtils

Rec == ndJsonDeserialize(IOEnv.TRACE)

VARIABLES l, c, s, a, g, lp, ex, bad

tv == <<l, c, s, a, g, lp, ex, bad>>

NoCase == [I |-> 0, T |-> 0, order |-> "it", delays |-> <<>>, horizon |-> 0]

TInit == TLCSet(7, <<>>) /\ l = 1 /\ c = NoCase /\ s = <<>> /\ a = <<>> /\ g = 0 /\ lp = 0 /\ ex = Never /\ bad = <<>>

R == Rec[l]
EffT == Clamp(c.I, c.T)

(* planned arrival of the Pong for the k-th Ping sent at time t (FIFO link) *)
Planned(k, t) ==
  LET d == IF k <= Len(c.delays) THEN c.delays[k] ELSE Never
      prev == IF Len(a) = 0 THEN 0 ELSE a[Len(a)]
  IN IF d = Never \/ prev = Never THEN Never ELSE IF t + d < prev THEN prev ELSE t + d

Reject(why) == bad' = Append(bad, <<l, why, c>>)

Step ==
  /\ l <= Len(Rec)
  /\ l' = l + 1
  /\ CASE R.ev = "case" ->
            /\ c' = [I |-> R.I, T |-> R.T, order |-> R.order, delays |-> R.delays, horizon |-> R.horizon]
            /\ s' = <<>> /\ a' = <<>> /\ g' = 0 /\ lp' = 0 /\ ex' = Never /\ UNCHANGED bad
       [] R.ev = "ping" ->
            /\ s' = Append(s, R.t) /\ a' = Append(a, Planned(Len(s) + 1, R.t))
            /\ IF R.frac # 0 \/ c.I = 0 \/ R.t # Len(s) * c.I \/ ex # Never
               THEN Reject("PingEveryI") ELSE UNCHANGED bad
            /\ UNCHANGED <<c, g, lp, ex>>
       [] R.ev = "pong" ->
            (* a Pong handed over after the endpoint already decided to give up does not count *)
            /\ IF ex = Never THEN g' = g + 1 /\ lp' = R.t ELSE UNCHANGED <<g, lp>>
            /\ UNCHANGED <<c, s, a, ex, bad>>
       [] R.ev = "closesent" ->
            (* the moment the endpoint gives up: it closes the sink right after deciding *)
            /\ ex' = R.t
            /\ IF ex # Never THEN UNCHANGED bad
               ELSE IF ~ExitNotEarly(EffT, lp, R.t) \/ c.I = 0 THEN Reject("ExitTooEarlyOrDisabled")
               ELSE IF R.t - lp > EffT + c.I THEN Reject("ExitTooLate")
               ELSE IF ~NoFalseTimeout(EffT, s, a, g, R.t)
                    THEN (IF F12Region(c.I, EffT) THEN Reject("F12.FalseTimeout") ELSE Reject("FalseTimeout"))
               ELSE UNCHANGED bad
            /\ UNCHANGED <<c, s, a, g, lp>>
       [] R.ev = "exit" ->
            /\ IF R.res # "keepalive" THEN Reject("ExitValue:" \o R.res)
               ELSE IF ex = Never THEN Reject("ExitWithoutClose")
               ELSE IF R.t # ex THEN Reject("TaskDidNotTerminatePromptly")
               ELSE IF ~R.pending_call_resolved THEN Reject("PendingCallNotResolved")
               ELSE UNCHANGED bad
            /\ UNCHANGED <<c, s, a, g, lp, ex>>
       [] R.ev = "end" ->
            /\ IF ex = Never /\ ~NoLateExit(c.I, EffT, lp, ex, R.t) THEN Reject("NoTimeoutDetected")
               ELSE IF ex # Never /\ ~(\E j \in 1 .. l : Rec[j].ev = "exit" /\ j > l - 3) THEN Reject("TaskNeverTerminated")
               ELSE IF ~DisabledSilent(c.I, s, ex) THEN Reject("DisabledNotSilent")
               ELSE IF ex = Never /\ c.I > 0 /\ Len(s) # (R.t \div c.I) + 1 THEN Reject("PingEveryI.count")
               ELSE UNCHANGED bad
            /\ UNCHANGED <<c, s, a, g, lp, ex>>
       [] OTHER -> UNCHANGED <<c, s, a, g, lp, ex, bad>>

TSpec == TInit /\ [][Step]_tv

Done == l = Len(Rec) + 1
Accepted ==
  /\ PrintT(<<"LINES", Len(Rec)>>)
  /\ \A i \in 1 .. Len(TLCGet(7)) : PrintT(<<"BAD", ToJson(TLCGet(7)[i])>>)
  /\ Len(TLCGet(7)) = 0
Track == (l = Len(Rec) + 1) => TLCSet(7, bad)
InitReg == TLCSet(7, <<>>)
=============================================================================
