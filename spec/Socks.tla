------------------------------- MODULE Socks -------------------------------
(***************************************************************************)
(* The wire grammar of SOCKS4, SOCKS4a and SOCKS5, written from the        *)
(* protocol documents (RFC 1928; "SOCKS: A protocol for TCP proxy across   *)
(* firewalls" (SOCKS4); "SOCKS 4A: A Simple Extension to SOCKS 4          *)
(* Protocol"), not from any implementation.                               *)
(*                                                                         *)
(* An octet is an integer 0..255, a message is a sequence of octets.       *)
(*                                                                         *)
(* Every parser is total over arbitrary octet sequences and returns        *)
(*   [st, why, cmd, atyp, addr, port, consumed, data]                      *)
(*   st = "ok"       the input starts with a well-formed message; `consumed`*)
(*                   is its exact length, the other fields its content      *)
(*        "needmore" the input is a strict prefix of some well-formed       *)
(*                   message and contains no complete one (stream parsers) *)
(*        "err"      no continuation of the input is well-formed            *)
(*        "undef"    the documents leave the case open: no expectation      *)
(*   addr = the raw address octets: 4 (ATYP 1), 16 (ATYP 4) or the octets   *)
(*          of the domain name without length octet / terminator (ATYP 3)  *)
(*   data = the method list (method selection) or the payload (UDP)        *)
(*   why  = cause of an "err": "version", "atyp", "frag", "short"          *)
(***************************************************************************)
EXTENDS Integers, Sequences, FiniteSets

Byte == 0 .. 255
IsBytes(s) == \A i \in 1 .. Len(s) : s[i] \in Byte

U16(hi, lo) == hi * 256 + lo                 \* network octet order (RFC 1928: "in network octet order")
PortBytes(p) == << p \div 256, p % 256 >>
Take(s, n) == SubSeq(s, 1, n)
Rep(b, n) == [i \in 1 .. n |-> b]

NoRes == [st |-> "err", why |-> "", cmd |-> 0, atyp |-> 0, addr |-> <<>>, port |-> 0, consumed |-> 0, data |-> <<>>]
St(s, w) == [NoRes EXCEPT !.st = s, !.why = w]
NeedMore == St("needmore", "")

(***************************************************************************)
(* RFC 1928 section 5, "Addressing":  ATYP  ADDR  PORT                     *)
(*   X'01' a version-4 IP address, 4 octets                                *)
(*   X'03' a fully-qualified domain name: the first octet of the address   *)
(*         field contains the number of octets of name that follow, there  *)
(*         is no terminating NUL octet                                     *)
(*   X'04' a version-6 IP address, 16 octets                               *)
(* `off` octets precede the ATYP octet.                                    *)
(***************************************************************************)
AddrLenKnown(b, off) ==        \* enough octets to know how long the address is
  /\ Len(b) >= off + 1
  /\ b[off + 1] = 3 => Len(b) >= off + 2

AddrPort(b, off) ==
  IF Len(b) < off + 1 THEN NeedMore
  ELSE LET t == b[off + 1] IN
       IF t \notin {1, 3, 4} THEN St("err", "atyp")
       ELSE IF ~AddrLenKnown(b, off) THEN NeedMore
       ELSE LET a0 == IF t = 3 THEN off + 2 ELSE off + 1          \* octets before the address proper
                n  == IF t = 1 THEN 4 ELSE IF t = 4 THEN 16 ELSE b[off + 2]
            IN IF Len(b) < a0 + n + 2 THEN NeedMore
               ELSE [NoRes EXCEPT !.st = "ok", !.atyp = t, !.addr = SubSeq(b, a0 + 1, a0 + n),
                                  !.port = U16(b[a0 + n + 1], b[a0 + n + 2]), !.consumed = a0 + n + 2]

AddrField(atyp, addr) == IF atyp = 3 THEN <<Len(addr)>> \o addr ELSE addr

(***************************************************************************)
(* RFC 1928 section 3: version identifier / method selection message       *)
(*      VER | NMETHODS | METHODS (1 to 255)                                *)
(* NMETHODS = 0 contradicts "1 to 255" but nothing is said about it:       *)
(* no expectation.                                                         *)
(***************************************************************************)
S5MethodSel(methods) == <<5, Len(methods)>> \o methods

ParseS5Methods(b) ==
  IF Len(b) < 1 THEN NeedMore
  ELSE IF b[1] # 5 THEN St("err", "version")
  ELSE IF Len(b) < 2 THEN NeedMore
  ELSE IF Len(b) < 2 + b[2] THEN NeedMore
  ELSE [NoRes EXCEPT !.st = IF b[2] = 0 THEN "undef" ELSE "ok",
                     !.data = SubSeq(b, 3, 2 + b[2]), !.consumed = 2 + b[2]]

S5MethodReply(method) == <<5, method>>          \* VER | METHOD

(***************************************************************************)
(* RFC 1928 section 4: request    VER | CMD | RSV X'00' | ATYP | DST.ADDR  *)
(* | DST.PORT.  The command octet is returned whatever its value (CONNECT  *)
(* 1, BIND 2, UDP ASSOCIATE 3; others are answered "command not supported" *)
(* by the server, which is not a matter of parsing).  "Fields marked       *)
(* RESERVED (RSV) must be set to X'00'": what a server does with another   *)
(* value is not specified -- no expectation.                               *)
(***************************************************************************)
S5Request(cmd, atyp, addr, port) == <<5, cmd, 0, atyp>> \o AddrField(atyp, addr) \o PortBytes(port)

ParseS5Request(b) ==
  IF Len(b) < 1 THEN NeedMore
  ELSE IF b[1] # 5 THEN St("err", "version")
  ELSE IF Len(b) < 3 THEN NeedMore
  ELSE IF b[3] # 0 THEN St("undef", "rsv")
  ELSE LET a == AddrPort(b, 3) IN
       IF a.st # "ok" THEN a ELSE [a EXCEPT !.cmd = b[2]]

(***************************************************************************)
(* RFC 1928 section 6: reply   VER | REP | RSV X'00' | ATYP | BND.ADDR |   *)
(* BND.PORT                                                                *)
(***************************************************************************)
S5Reply(rep, atyp, addr, port) == <<5, rep, 0, atyp>> \o AddrField(atyp, addr) \o PortBytes(port)
RepAtypUnsupported == 8

(***************************************************************************)
(* SOCKS4:   VN=4 | CD | DSTPORT (2) | DSTIP (4) | USERID | NULL           *)
(* SOCKS4a:  DSTIP = 0.0.0.x with x nonzero; "following the NULL byte      *)
(*           terminating USERID, the client must send the destination      *)
(*           domain name and terminate it with another NULL byte"          *)
(* DSTIP 0.0.0.0 and 0.x.y.z with x or y nonzero are covered by neither    *)
(* document as far as the extension is concerned: no expectation.          *)
(* The user id is not part of the result record (`data` carries it).       *)
(***************************************************************************)
S4Request(cd, port, ip, userid) == <<4, cd>> \o PortBytes(port) \o ip \o userid \o <<0>>
S4aRequest(cd, port, x, userid, domain) ==
  <<4, cd>> \o PortBytes(port) \o <<0, 0, 0, x>> \o userid \o <<0>> \o domain \o <<0>>

\* index of the first NUL octet at or after position `from`; 0 when there is none
NulAt(b, from) ==
  LET S == {i \in from .. Len(b) : b[i] = 0}
  IN IF S = {} THEN 0 ELSE CHOOSE i \in S : \A j \in S : i <= j

ParseS4Request(b) ==
  IF Len(b) < 1 THEN NeedMore
  ELSE IF b[1] # 4 THEN St("err", "version")
  ELSE IF Len(b) < 8 THEN NeedMore
  ELSE LET ip == SubSeq(b, 5, 8)
           is4a == ip[1] = 0 /\ ip[2] = 0 /\ ip[3] = 0 /\ ip[4] # 0
       IN IF ip[1] = 0 /\ ~is4a THEN St("undef", "dstip")
          ELSE LET u == NulAt(b, 9) IN
               IF u = 0 THEN NeedMore
               ELSE IF ~is4a
                    THEN [NoRes EXCEPT !.st = "ok", !.cmd = b[2], !.atyp = 1, !.addr = ip,
                                       !.port = U16(b[3], b[4]), !.consumed = u, !.data = SubSeq(b, 9, u - 1)]
                    ELSE LET d == NulAt(b, u + 1) IN
                         IF d = 0 THEN NeedMore
                         ELSE [NoRes EXCEPT !.st = "ok", !.cmd = b[2], !.atyp = 3, !.addr = SubSeq(b, u + 1, d - 1),
                                            !.port = U16(b[3], b[4]), !.consumed = d, !.data = SubSeq(b, 9, u - 1)]

(* SOCKS4 reply:  VN=0 | CD | DSTPORT | DSTIP  (8 octets; 90 granted, 91..93 rejected) *)
S4Reply(cd, port, ip) == <<0, cd>> \o PortBytes(port) \o ip

(***************************************************************************)
(* RFC 1928 section 7: UDP request header, used in both directions         *)
(*      RSV X'0000' | FRAG | ATYP | DST.ADDR | DST.PORT | DATA             *)
(* A datagram is complete: what is missing is an error, never "needmore".  *)
(* "An implementation that does not support fragmentation MUST drop any    *)
(* datagram whose FRAG field is other than X'00'."                         *)
(***************************************************************************)
UdpHeader(atyp, addr, port, payload) == <<0, 0, 0, atyp>> \o AddrField(atyp, addr) \o PortBytes(port) \o payload

ParseUdp(b) ==
  IF Len(b) < 4 THEN St("err", "short")
  ELSE IF b[3] # 0 THEN St("err", "frag")
  ELSE LET a == AddrPort(b, 3) IN
       IF a.st = "needmore" THEN St("err", "short")
       ELSE IF a.st # "ok" THEN a
       ELSE IF b[1] # 0 \/ b[2] # 0 THEN St("undef", "rsv")
       ELSE [a EXCEPT !.data = SubSeq(b, a.consumed + 1, Len(b))]

\* the round trip demanded of the relay: what it builds, a conforming client reads back
UdpRoundTrip(atyp, addr, port, payload) ==
  LET p == ParseUdp(UdpHeader(atyp, addr, port, payload))
  IN p.st = "ok" /\ <<p.atyp, p.addr, p.port, p.data>> = <<atyp, addr, port, payload>>

(***************************************************************************)
(* Laws that tie the three outcomes of a stream parser together; checked   *)
(* by TLC on every enumerated case (MC_Socks).                             *)
(***************************************************************************)
\* a complete message: every strict prefix of it needs more, and what follows it is not looked at
PrefixLaw(P(_), b) ==
  LET e == P(b) IN
  e.st = "ok" =>
     /\ e.consumed \in 1 .. Len(b)
     /\ \A j \in 0 .. (e.consumed - 1) : P(Take(b, j)).st = "needmore"
     /\ P(Take(b, e.consumed)) = e
\* an error stays an error whatever follows; needing more means no complete message yet
ErrLaw(P(_), b) ==
  LET e == P(b) IN
  e.st = "err" => \A t \in {<<0>>, <<5, 1>>} : P(b \o t).st = "err"
=============================================================================
