------------------------------- MODULE Chain -------------------------------
(***************************************************************************)
(* C20: cow_bytes::LongChain (and CowBytes) behave exactly like a plain    *)
(* byte sequence.                                                          *)
(*                                                                         *)
(* A chain is a sequence of NON-EMPTY chunks; a chunk is a sequence of     *)
(* bytes (naturals).  `Flatten(c)` is the plain byte sequence it stands    *)
(* for.  For every operation of the public API this module defines         *)
(*   (a) `Apply`  -- what a correct implementation does to the chunk list  *)
(*       (keeping chunk boundaries, updating a cached length counter the   *)
(*       way an implementation does: arithmetically, not by re-counting),  *)
(*   (b) `Post`   -- the RELATIONAL postcondition of the property, stated  *)
(*       on the flattened plain sequence and on what the accessors report  *)
(*       (`Obs` records: chunk list, len, remaining, chunk, is_empty).     *)
(*       `Post` is what spec/ChainTrace.tla evaluates on values observed   *)
(*       on the real code.                                                 *)
(* The state machine below applies every operation with arguments at,      *)
(* inside and one past every boundary, from every initial chain of the     *)
(* configured shapes, up to `Depth` operations, records the operation      *)
(* sequence in the history variable `hist`, and prints every maximal       *)
(* operation sequence as one JSON line (`SEQ`) so that it can be replayed   *)
(* on the real code (harness/src/bin/chain_vec.rs).                        *)
(*                                                                         *)
(* Operations are records [op, i, x]: `i` is the numeric argument (chunk   *)
(* index for insert/remove, byte offset/length for split_to, split_off,    *)
(* truncate, advance), `x` the segment for push/insert.                    *)
(***************************************************************************)
EXTENDS Integers, Sequences, FiniteSets, TLC, Json

CONSTANTS MaxChunks,   \* initial chains have 0 .. MaxChunks chunks
          Sizes,       \* set of chunk sizes of the initial chains
          Segs,        \* segments offered to push / insert (contains the empty segment)
          Depth,       \* number of operations per behaviour
          Mode,        \* "fixed": Apply is the correct behaviour; "pinned": Apply mimics pbuf.rs of the pinned tree
          CowAlphabet, \* bytes of the strings of the CowBytes cases
          CowMaxLen    \* maximal length of those strings

(* values for Segs (a configuration file cannot contain tuples): `Segs <- SegsQuick` *)
SegsQuick == {<<>>, <<7>>}
SegsThorough == {<<>>, <<7>>, <<8, 9>>}

(* ---------------------------------------------------------------------- *)
(* plain sequences                                                        *)
(* ---------------------------------------------------------------------- *)
RECURSIVE Flatten(_)
Flatten(c) == IF c = <<>> THEN <<>> ELSE Head(c) \o Flatten(Tail(c))

RECURSIVE SumLen(_)
SumLen(c) == IF c = <<>> THEN 0 ELSE Len(Head(c)) + SumLen(Tail(c))

NoEmpty(c) == \A k \in 1 .. Len(c) : c[k] # <<>>

Prefix(s, n) == SubSeq(s, 1, n)
Suffix(s, n) == SubSeq(s, n + 1, Len(s))           \* s without its first n elements

(* lexicographic comparison of byte strings (what Ord on [u8] is) *)
RECURSIVE LexCmp(_, _)
LexCmp(x, y) ==
  IF x = <<>> /\ y = <<>> THEN "eq"
  ELSE IF x = <<>> THEN "lt"
  ELSE IF y = <<>> THEN "gt"
  ELSE IF Head(x) < Head(y) THEN "lt"
  ELSE IF Head(x) > Head(y) THEN "gt"
  ELSE LexCmp(Tail(x), Tail(y))

HexDigitsL == <<"0", "1", "2", "3", "4", "5", "6", "7", "8", "9", "a", "b", "c", "d", "e", "f">>
HexDigitsU == <<"0", "1", "2", "3", "4", "5", "6", "7", "8", "9", "A", "B", "C", "D", "E", "F">>
RECURSIVE Hex(_, _)
Hex(x, d) == IF x = <<>> THEN ""
             ELSE d[(Head(x) \div 16) + 1] \o d[(Head(x) % 16) + 1] \o Hex(Tail(x), d)

(* ---------------------------------------------------------------------- *)
(* chunk lists: canonical behaviour of a correct implementation           *)
(* ---------------------------------------------------------------------- *)
(* the first k bytes, chunk boundaries kept, the chunk containing offset k cut *)
RECURSIVE Take(_, _)
Take(c, k) ==
  IF k = 0 \/ c = <<>> THEN <<>>
  ELSE IF Len(Head(c)) <= k THEN <<Head(c)>> \o Take(Tail(c), k - Len(Head(c)))
  ELSE <<Prefix(Head(c), k)>>

(* all but the first k bytes *)
RECURSIVE Drop(_, _)
Drop(c, k) ==
  IF k = 0 \/ c = <<>> THEN c
  ELSE IF Len(Head(c)) <= k THEN Drop(Tail(c), k - Len(Head(c)))
  ELSE <<Suffix(Head(c), k)>> \o Tail(c)

InsertAt(c, i, x) == Prefix(c, i) \o <<x>> \o Suffix(c, i)       \* i = number of chunks before x
RemoveAt(c, i) == Prefix(c, i) \o Suffix(c, i + 1)               \* removes chunk number i+1 (0-based i)

Op(op, i, x) == [op |-> op, i |-> i, x |-> x]

OpNames == {"push", "insert", "pop", "remove", "split_to", "split_off", "truncate", "advance", "clear"}

(* what the accessors of a chain value report *)
ObsOf(c, n) == [ch |-> c, len |-> n, rem |-> n,
                chunk |-> IF c = <<>> THEN <<>> ELSE c[1],
                empty |-> (n = 0), drain |-> Flatten(c), accp |-> <<>>]

NoObs == ObsOf(<<>>, 0)
Unit == [k |-> "unit", b |-> <<>>]
RNone == [k |-> "none", b |-> <<>>]
RBytes(b) == [k |-> "bytes", b |-> b]
RChain(c, n) == [k |-> "chain", b |-> <<>>, c |-> ObsOf(c, n)]

(* Is the argument of the operation in range for a value with chunk list c (n chunks, L bytes)? *)
InRangeFor(o, c) ==
  LET n == Len(c)
      L == SumLen(c)
  IN CASE o.op = "push"   -> o.x # <<>>
       [] o.op = "insert" -> o.x # <<>> /\ o.i <= n
       [] o.op = "pop"    -> n > 0
       [] o.op = "remove" -> o.i < n
       [] o.op \in {"split_to", "split_off", "truncate", "advance"} -> o.i <= L
       [] o.op = "clear"  -> TRUE
       [] OTHER -> FALSE

(* Apply(o, c, n): c the chunk list, n the cached length.  Result [c, n, ret].
   Out-of-range arguments leave the value unchanged (a panic is the other allowed outcome; the
   model then simply has no successor worth exploring, so it is not a transition).           *)
ApplyFixed(o, c, n) ==
  IF ~InRangeFor(o, c)
  THEN [c |-> c, n |-> n,
        ret |-> CASE o.op = "pop" -> RNone
                  [] o.op = "remove" -> RBytes(<<>>)
                  [] o.op \in {"split_to", "split_off"} -> RChain(<<>>, 0)
                  [] OTHER -> Unit]
  ELSE CASE o.op = "push"      -> [c |-> Append(c, o.x), n |-> n + Len(o.x), ret |-> Unit]
         [] o.op = "insert"    -> [c |-> InsertAt(c, o.i, o.x), n |-> n + Len(o.x), ret |-> Unit]
         [] o.op = "pop"       -> [c |-> Prefix(c, Len(c) - 1), n |-> n - Len(c[Len(c)]), ret |-> RBytes(c[Len(c)])]
         [] o.op = "remove"    -> [c |-> RemoveAt(c, o.i), n |-> n - Len(c[o.i + 1]), ret |-> RBytes(c[o.i + 1])]
         [] o.op = "split_to"  -> [c |-> Drop(c, o.i), n |-> n - o.i, ret |-> RChain(Take(c, o.i), o.i)]
         [] o.op = "split_off" -> [c |-> Take(c, o.i), n |-> o.i, ret |-> RChain(Drop(c, o.i), n - o.i)]
         [] o.op = "truncate"  -> [c |-> Take(c, o.i), n |-> o.i, ret |-> Unit]
         [] o.op = "advance"   -> [c |-> Drop(c, o.i), n |-> n - o.i, ret |-> Unit]
         [] o.op = "clear"     -> [c |-> <<>>, n |-> 0, ret |-> Unit]

(* The pinned tree (cow-bytes/src/pbuf.rs before any repair), as read from the source:
   push/insert store an empty segment as a chunk; truncate stores its argument in the cached length
   whatever the real length is.  Only used to show that the invariants below catch these defects
   at the design level (Chain_pinned.cfg is EXPECTED to violate ApplyMeetsPost).                  *)
ApplyPinned(o, c, n) ==
  CASE o.op = "push" /\ o.x = <<>> -> [c |-> Append(c, o.x), n |-> n, ret |-> Unit]
    [] o.op = "insert" /\ o.x = <<>> /\ o.i <= Len(c) -> [c |-> InsertAt(c, o.i, o.x), n |-> n, ret |-> Unit]
    [] o.op = "truncate" /\ o.i > SumLen(c) -> [c |-> c, n |-> o.i, ret |-> Unit]
    [] OTHER -> ApplyFixed(o, c, n)

Apply(o, c, n) == IF Mode = "pinned" THEN ApplyPinned(o, c, n) ELSE ApplyFixed(o, c, n)

(* ---------------------------------------------------------------------- *)
(* the property: relational postcondition on OBSERVED values              *)
(* ---------------------------------------------------------------------- *)
(* An observation is a record [ch, len, rem, chunk, empty, drain, accp]: the chunk list
   (AsRef<[CowBytes]>), len(), Buf::remaining(), Buf::chunk(), is_empty(), the bytes a consumer reads
   through Buf (chunk() / advance(chunk().len()) on a clone until has_remaining() is false), and the
   list of accessors that panicked ("drain_stuck": the reading loop made no progress).            *)
WF(o) ==
  /\ o.accp = <<>>                                   \* no accessor of a live value panics
  /\ NoEmpty(o.ch)                                   \* no chunk is empty
  /\ o.len = Len(Flatten(o.ch))                      \* the reported length is the length of the contents
  /\ o.rem = o.len                                   \* Buf::remaining
  /\ o.chunk = (IF o.ch = <<>> THEN <<>> ELSE o.ch[1])
  /\ (o.chunk = <<>>) <=> (o.len = 0)                \* Buf contract: chunk() is empty iff nothing remains
  /\ o.empty = (o.len = 0)
  /\ o.drain = Flatten(o.ch)                         \* the remaining bytes, as read through Buf

InRange(o, b) == InRangeFor(o, b.ch)

(* what the operation does to a plain byte sequence; chunk-level operations (insert, pop, remove) are
   located through the chunk boundaries of the observed value before the operation *)
PlainAfter(o, b) ==
  LET F == Flatten(b.ch)
      L == Len(F)
      n == Len(b.ch)
  IN CASE o.op = "push"      -> F \o o.x
       [] o.op = "insert"    -> LET p == SumLen(Prefix(b.ch, o.i)) IN Prefix(F, p) \o o.x \o Suffix(F, p)
       [] o.op = "pop"       -> Prefix(F, L - Len(b.ch[n]))
       [] o.op = "remove"    -> LET p == SumLen(Prefix(b.ch, o.i)) IN Prefix(F, p) \o Suffix(F, p + Len(b.ch[o.i + 1]))
       [] o.op = "split_to"  -> Suffix(F, o.i)
       [] o.op = "split_off" -> Prefix(F, o.i)
       [] o.op = "truncate"  -> Prefix(F, o.i)
       [] o.op = "advance"   -> Suffix(F, o.i)
       [] o.op = "clear"     -> <<>>

RetOk(o, b, r) ==
  LET F == Flatten(b.ch) IN
  CASE o.op \in {"push", "insert", "truncate", "advance", "clear"} -> r.k = "unit"
    [] o.op = "pop"       -> r.k = "bytes" /\ r.b = b.ch[Len(b.ch)]
    [] o.op = "remove"    -> r.k = "bytes" /\ r.b = b.ch[o.i + 1]
    [] o.op = "split_to"  -> r.k = "chain" /\ WF(r.c) /\ Flatten(r.c.ch) = Prefix(F, o.i)
    [] o.op = "split_off" -> r.k = "chain" /\ WF(r.c) /\ Flatten(r.c.ch) = Suffix(F, o.i)

(* the value returned by a call with an out-of-range argument that did not panic: no malformed value *)
RetNeutral(o, r) ==
  CASE o.op \in {"push", "insert", "truncate", "advance", "clear"} -> r.k = "unit"
    [] o.op = "pop"       -> r.k = "none"
    [] o.op = "remove"    -> r.k = "bytes"
    [] o.op \in {"split_to", "split_off"} -> r.k = "chain" /\ WF(r.c)

(* b, a: observation before / after; r: returned value; out: "ok" | "panic" *)
Post(o, b, a, r, out) ==
  /\ WF(b)
  /\ IF InRange(o, b)
     THEN /\ out = "ok"
          /\ WF(a)
          /\ Flatten(a.ch) = PlainAfter(o, b)
          /\ RetOk(o, b, r)
     ELSE \/ out = "panic"                           \* the value is not inspected afterwards
          \/ out = "ok" /\ a = b /\ RetNeutral(o, r) \* unchanged, exactly

(* stable signature of a rejected case (read by tools/fam_chain.py, matched with KNOWN_FINDINGS.json) *)
SigOf(o, b) ==
  IF ~WF(b) THEN "tainted:" \o o.op
  ELSE IF InRange(o, b) THEN "other:" \o o.op
  ELSE CASE o.op \in {"push", "insert"} /\ o.x = <<>> /\ (o.op = "push" \/ o.i <= Len(b.ch)) -> o.op \o "_empty"
         [] o.op = "pop" -> "pop_empty"
         [] OTHER -> o.op \o "_past_end"

(* ---------------------------------------------------------------------- *)
(* CowBytes: one value against the plain byte string X                    *)
(* ---------------------------------------------------------------------- *)
(* operations at position p of a CowBytes holding X: what remains in the value, what is returned *)
CowInRange(op, X, p) == op = "read" \/ p <= Len(X)
CowSelf(op, X, p) ==
  CASE op = "split_to"  -> Suffix(X, p)
    [] op = "split_off" -> Prefix(X, p)
    [] op = "truncate"  -> Prefix(X, p)
    [] op = "advance"   -> Suffix(X, p)
    [] op = "read"      -> Suffix(X, IF p <= Len(X) THEN p ELSE Len(X))
CowRet(op, X, p) ==
  CASE op = "split_to"  -> Prefix(X, p)
    [] op = "split_off" -> Suffix(X, p)
    [] op = "read"      -> Prefix(X, IF p <= Len(X) THEN p ELSE Len(X))
    [] OTHER -> <<>>
(* std::io::Read for CowBytes is not part of the statement of C20 (it names accessors, comparisons, hash
   and the positional operations).  It is observed all the same: the bytes handed out must be the
   prefix and both variants must agree; whether the value was consumed (what Read on a plain &[u8]
   does) is not demanded here but reported as a NOTE by the trace specification.                  *)
ReadNotConsumed(op, X, p, e) == op = "read" /\ p > 0 /\ X # <<>> /\ e.out = "ok" /\ e.self = X
CowOpPost(op, X, p, e) ==      \* e = [out, self, ret]
  IF op = "read"
  THEN e.out = "ok" /\ e.ret = CowRet(op, X, p) /\ e.self \in {CowSelf(op, X, p), X}
  ELSE IF CowInRange(op, X, p)
  THEN e.out = "ok" /\ e.self = CowSelf(op, X, p) /\ e.ret = CowRet(op, X, p)
  ELSE e.out = "panic" \/ (e.out = "ok" /\ e.self = X)

RECURSIVE Strings(_)
Strings(n) == IF n = 0 THEN {<<>>}
              ELSE Strings(n - 1) \cup {Append(s, b) : s \in Strings(n - 1), b \in CowAlphabet}

(* ---------------------------------------------------------------------- *)
(* the model: all operation sequences                                     *)
(* ---------------------------------------------------------------------- *)
VARIABLES init,   \* the initial chunk list of this behaviour
          c,      \* the chunk list
          n,      \* the cached length
          hist,   \* history variable: the operations applied so far
          last    \* the last step: [o, b, bn, ret] (operation, value before)

vars == <<init, c, n, hist, last>>

(* initial chains: every shape with 0..MaxChunks chunks of the given sizes; the bytes are 1, 2, 3, ...
   by position, so any misplaced, lost or duplicated byte changes the flattened sequence           *)
RECURSIVE Shapes(_)
Shapes(k) == IF k = 0 THEN {<<>>} ELSE Shapes(k - 1) \cup {Append(s, z) : s \in Shapes(k - 1), z \in Sizes}

RECURSIVE Fill(_, _)
Fill(shape, from) == IF shape = <<>> THEN <<>>
                     ELSE <<[j \in 1 .. Head(shape) |-> from + j]>> \o Fill(Tail(shape), from + Head(shape))

InitChains == {Fill(s, 0) : s \in Shapes(MaxChunks)}

(* arguments at, inside and one past every boundary.  With chunk sizes <= 3 "every byte offset from 0
   to one past the end" is exactly: every chunk boundary, every offset inside a chunk, and end + 1. *)
OpsPush(cc)   == {Op("push", 0, x) : x \in Segs}
OpsInsert(cc) == {Op("insert", i, x) : i \in 0 .. Len(cc) + 1, x \in Segs}
OpsPop(cc)    == {Op("pop", 0, <<>>)}
OpsClear(cc)  == {Op("clear", 0, <<>>)}
OpsRemove(cc) == {Op("remove", i, <<>>) : i \in 0 .. Len(cc)}
OpsBytes(nm, cc) == {Op(nm, at, <<>>) : at \in 0 .. SumLen(cc) + 1}

NoLast == [o |-> Op("none", 0, <<>>), b |-> <<>>, bn |-> 0, ret |-> Unit]

Init == /\ init \in InitChains
        /\ c = init
        /\ n = SumLen(init)
        /\ hist = <<>>
        /\ last = NoLast

Step(o) ==
  LET r == Apply(o, c, n) IN
  /\ c' = r.c
  /\ n' = r.n
  /\ hist' = Append(hist, o)
  /\ last' = [o |-> o, b |-> c, bn |-> n, ret |-> r.ret]
  /\ UNCHANGED init

More == Len(hist) < Depth

APush     == More /\ \E o \in OpsPush(c) : Step(o)
AInsert   == More /\ \E o \in OpsInsert(c) : Step(o)
APop      == More /\ \E o \in OpsPop(c) : Step(o)
ARemove   == More /\ \E o \in OpsRemove(c) : Step(o)
ASplitTo  == More /\ \E o \in OpsBytes("split_to", c) : Step(o)
ASplitOff == More /\ \E o \in OpsBytes("split_off", c) : Step(o)
ATruncate == More /\ \E o \in OpsBytes("truncate", c) : Step(o)
AAdvance  == More /\ \E o \in OpsBytes("advance", c) : Step(o)
AClear    == More /\ \E o \in OpsClear(c) : Step(o)

Next == APush \/ AInsert \/ APop \/ ARemove \/ ASplitTo \/ ASplitOff \/ ATruncate \/ AAdvance \/ AClear

Spec == Init /\ [][Next]_vars

(* ---------------------------------------------------------------------- *)
(* invariants                                                             *)
(* ---------------------------------------------------------------------- *)
NoEmptyChunk == NoEmpty(c) /\ (last.ret.k = "chain" => NoEmpty(last.ret.c.ch))
LenIsSum == n = SumLen(c) /\ n = Len(Flatten(c)) /\ (last.ret.k = "chain" => last.ret.c.len = SumLen(last.ret.c.ch))

(* the canonical behaviour satisfies the relational postcondition of the property *)
ApplyMeetsPost ==
  last.o.op # "none" => Post(last.o, ObsOf(last.b, last.bn), ObsOf(c, n), last.ret, "ok")

(* a panic is always accepted for an out-of-range argument and never for an in-range one *)
PanicOnlyOutOfRange ==
  last.o.op # "none" =>
     (Post(last.o, ObsOf(last.b, last.bn), NoObs, Unit, "panic") <=> ~InRangeFor(last.o, last.b))

(* Emission of the cases.  One JSON line per maximal behaviour prefix (all behaviours have exactly
   Depth operations, every shorter prefix is a prefix of one of them).                           *)
Emit == Len(hist) = Depth => PrintT(<<"SEQ", ToJson([init |-> init, ops |-> hist])>>)

(* strings of the CowBytes cases *)
CowStrings == Strings(CowMaxLen)
ASSUME PrintT(<<"COWSET", ToJson([strings |-> CowStrings])>>)
=============================================================================
