SPECIFICATION Spec
CONSTANTS
  Mode = "pinned"
  OrdMode = "code"
  SC = "no"
  NPolls = 2
INVARIANTS ContractHolds NoRace StateWordSane
CHECK_DEADLOCK FALSE
