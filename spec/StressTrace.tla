----------------------------- MODULE StressTrace -----------------------------
(* TLC decides every record of the threaded stress driver against MuxStressDefs.Clauses; one line = one iteration;
   a line that violates a clause is recorded with the clause names and validation continues. *)
EXTENDS MuxStressDefs, Json, IOUtils
Rec == ndJsonDeserialize(IOEnv.TRACE)
VARIABLES l, bad
Init0 == l = 1 /\ bad = <<>>
Step ==
  /\ l <= Len(Rec) /\ l' = l + 1
  /\ LET c == Clauses(Rec[l]) IN
     bad' = IF c = {} THEN bad ELSE Append(bad, [line |-> l, viol |-> c])
TSpec == Init0 /\ [][Step]_<<l, bad>>
Report == (l = Len(Rec) + 1) => PrintT(<<"STRESS", Len(Rec), ToJson(bad)>>)
=============================================================================
