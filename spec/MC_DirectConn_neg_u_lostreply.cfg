\* C01: negative control: a relay with the fault `u_lostreply` must violate U_Reply
SPECIFICATION Spec
CONSTANTS
  MaxW = 1
  Sizes = {0}
  Fault = "u_lostreply"
  Proto = "udp"
  Gen = FALSE
  MaxK = 2
INVARIANTS U_Reply
