----------------------------- MODULE SocksTrace -----------------------------
(***************************************************************************)
(* Trace specification for property C18: validates an ndjson log written   *)
(* by harness/src/bin/socks_vec.rs (the real penguin_socks::{v4,v5} code)  *)
(* against the grammar of Socks.tla.  Every line is independent:           *)
(*                                                                         *)
(*  ev = "parse"  the reader `fn` was given the octets `input` (after the  *)
(*                caller took `skip` version octets off) over a reader     *)
(*                that ends (mode "eof"), stays pending (mode "pend") or   *)
(*                as one datagram (mode "dgram").  The outcome must be the *)
(*                one the grammar assigns to `input`:                      *)
(*                  ok        -> "ok" with exactly that command, address,  *)
(*                               port, data and number of octets consumed  *)
(*                  needmore,                                              *)
(*                  err       -> "err"; in mode "pend" also "pending"      *)
(*                  undef     -> anything but a panic                      *)
(*  ev = "build"  the writer `fn` was called with the logged arguments and *)
(*                produced `out`: equal to the builder of Socks.tla; a UDP *)
(*                relay datagram must moreover parse back (ParseUdp) to    *)
(*                the address, port and payload that were passed in.       *)
(*                                                                         *)
(* Acceptance: POSTCONDITION Accepted (as in MuxTrace.tla).  With          *)
(* Collect = FALSE the behaviour stops at the first unmatched line; with   *)
(* Collect = TRUE unmatched lines are recorded and skipped, so that one    *)
(* run reports all of them, each with a signature (Sig) and what the       *)
(* grammar expected.                                                       *)
(***************************************************************************)
EXTENDS Socks, Json, IOUtils, TLC

CONSTANT Collect

Rec == ndJsonDeserialize(IOEnv.TRACE)

VARIABLE l

Skip(fn) == IF fn \in {"v5_methods", "v4_request"} THEN 1 ELSE 0
Ver(fn) == IF fn = "v4_request" THEN 4 ELSE 5
ParseFns == {"v5_request", "v5_methods", "v4_request", "udp_parse"}
ParseFn(fn, b) ==
  CASE fn = "v5_request" -> ParseS5Request(b)
    [] fn = "v5_methods" -> ParseS5Methods(b)
    [] fn = "v4_request" -> ParseS4Request(b)
    [] fn = "udp_parse"  -> ParseUdp(b)

Zero4 == <<0, 0, 0, 0>>
AtypReply == S5Reply(RepAtypUnsupported, 1, Zero4, 0)

\* the line is something the harness can have written for this function (else the log is not to be trusted)
WellFormedParse(r) ==
  /\ r.fn \in ParseFns
  /\ IsBytes(r.input)
  /\ r.skip = Skip(r.fn)
  /\ r.skip = 1 => Len(r.input) >= 1 /\ r.input[1] = Ver(r.fn)
  /\ r.mode \in (IF r.fn = "udp_parse" THEN {"dgram"} ELSE {"eof", "pend"})

Allowed(e, mode) ==
  CASE e.st = "ok" -> {"ok"}
    [] e.st \in {"err", "needmore"} -> IF mode = "pend" THEN {"err", "pending"} ELSE {"err"}
    [] e.st = "undef" -> {"ok", "err", "pending"}

MatchParse(r) ==
  /\ WellFormedParse(r)
  /\ LET e == ParseFn(r.fn, r.input) IN
     /\ r.res \in Allowed(e, r.mode)
     /\ e.st = "ok" =>
          /\ r.cmd = e.cmd
          /\ r.port = e.port
          /\ r.skip + r.consumed = e.consumed
          /\ IF e.atyp = 3 THEN r.addr = e.addr          \* the domain name, octet for octet
             ELSE IF e.atyp \in {1, 4} THEN r.ip = e.addr \* the IP address the returned text denotes
             ELSE TRUE
          /\ r.fn \in {"v5_methods", "udp_parse"} => r.data = e.data
     \* nothing is written to the client, except the reply "address type not supported"
     /\ \/ r.written = <<>>
        \/ /\ r.fn = "v5_request" /\ r.written = AtypReply
           /\ (e.st = "err" /\ e.why = "atyp") \/ e.st = "undef"

BuildExpect(r) ==
  CASE r.fn = "udp_relay_response" -> { UdpHeader(r.atyp, r.addr, r.port, r.payload) }
    [] r.fn = "v5_reply"        -> { S5Reply(r.rep, r.atyp, r.addr, r.port) }
    \* a failure reply carries an unspecified bound address
    [] r.fn = "v5_reply_unspec" -> { S5Reply(r.rep, 1, Zero4, 0), S5Reply(r.rep, 4, Rep(0, 16), 0) }
    [] r.fn = "v5_method"       -> { S5MethodReply(r.method) }
    \* DSTPORT / DSTIP of a SOCKS4 reply to CONNECT are ignored by the client: any octets
    [] r.fn = "v4_reply"        -> IF Len(r.out) = 8 /\ IsBytes(r.out)
                                   THEN { S4Reply(r.rep, U16(r.out[3], r.out[4]), SubSeq(r.out, 5, 8)) }
                                   ELSE { S4Reply(r.rep, 0, Zero4) }
    [] OTHER -> {}

MatchBuild(r) ==
  /\ r.res = "ok"
  /\ r.out \in BuildExpect(r)
  /\ r.fn = "udp_relay_response" =>
        LET p == ParseUdp(r.out) IN
        p.st = "ok" /\ p.atyp = r.atyp /\ p.addr = r.addr /\ p.port = r.port /\ p.data = r.payload

Match(r) ==
  CASE r.ev = "parse" -> MatchParse(r)
    [] r.ev = "build" -> MatchBuild(r)
    [] OTHER -> FALSE

(* ---------------- diagnosis of an unmatched line: a stable signature ---------------------------- *)
SameBag(a, b) ==
  /\ Len(a) = Len(b)
  /\ \A x \in {a[i] : i \in 1 .. Len(a)} \cup {b[i] : i \in 1 .. Len(b)} :
        Cardinality({i \in 1 .. Len(a) : a[i] = x}) = Cardinality({i \in 1 .. Len(b) : b[i] = x})

Sig(r) ==
  IF r.res = "panic" THEN "panic:" \o r.fn
  ELSE IF r.ev = "build"
  THEN IF /\ r.fn = "udp_relay_response" /\ r.res = "ok"
          /\ LET x == UdpHeader(r.atyp, r.addr, r.port, r.payload)
                 h == Len(x) - Len(r.payload)
             IN \* RSV, FRAG, port and payload in place; the octets of ATYP | ADDR are the right ones in the wrong order
                /\ Len(r.out) = Len(x)
                /\ SubSeq(r.out, 1, 3) = SubSeq(x, 1, 3)
                /\ SubSeq(r.out, h - 1, Len(x)) = SubSeq(x, h - 1, Len(x))
                /\ SameBag(SubSeq(r.out, 4, h - 2), SubSeq(x, 4, h - 2))
       THEN "udp_header_layout"
       ELSE "other:" \o r.fn
  ELSE IF r.ev = "parse" /\ WellFormedParse(r)
  THEN LET e == ParseFn(r.fn, r.input) IN
       \* a NUL-terminated field (USERID, 4a domain name) cut off before its terminator, yet accepted
       IF r.fn = "v4_request" /\ r.mode = "eof" /\ e.st = "needmore" /\ r.res = "ok" /\ Len(r.input) >= 8
       THEN "socks4_missing_nul"
       ELSE "other:" \o r.fn
  ELSE "other:malformed_line"

ExpectView(r) ==
  IF r.ev = "build" THEN [out |-> BuildExpect(r)]
  ELSE IF r.ev = "parse" /\ WellFormedParse(r)
  THEN LET e == ParseFn(r.fn, r.input) IN
       [res |-> Allowed(e, r.mode), st |-> e.st, why |-> e.why, cmd |-> e.cmd, atyp |-> e.atyp, addr |-> e.addr,
        port |-> e.port, data |-> e.data, consumed |-> e.consumed - r.skip]
  ELSE [error |-> "malformed line"]

(* ---------------- the walk over the log ---------------------------------------------------------- *)
\* registers: 1 = furthest line reached, 3 = unmatched lines (Collect), 4 = counters
Init == /\ l = 1
        /\ TLCSet(1, 1) /\ TLCSet(3, <<>>)

Step ==
  /\ l <= Len(Rec)
  /\ IF Match(Rec[l]) THEN TRUE
     ELSE Collect /\ TLCSet(3, Append(TLCGet(3), l))
  /\ l' = l + 1

Next == Step
Spec == Init /\ [][Next]_l

Track == IF TLCGet(1) < l THEN TLCSet(1, l) ELSE TRUE

Bad == TLCGet(3)
FirstBad == IF Len(Bad) > 0 THEN Bad[1] ELSE TLCGet(1)

Accepted ==
  \/ /\ TLCGet(1) = Len(Rec) + 1
     /\ Len(Bad) = 0
     /\ PrintT(<<"ACCEPTED lines", Len(Rec)>>)
  \/ /\ PrintT(<<"REJECTED at line", FirstBad, "of", Len(Rec)>>)
     /\ FirstBad <= Len(Rec) => /\ PrintT(<<"UNMATCHED", ToJson(Rec[FirstBad])>>)
                                /\ PrintT(<<"EXPECTED", ToJson(ExpectView(Rec[FirstBad]))>>)
     /\ \A k \in 1 .. Len(Bad) :
          PrintT(<<"BAD", Bad[k], Sig(Rec[Bad[k]]), ToJson(ExpectView(Rec[Bad[k]]))>>)
     /\ PrintT(<<"BADCOUNT", Len(Bad)>>)
     /\ FALSE
=============================================================================
