----------------------------- MODULE Keepalive -----------------------------
(*************************************************************************)
(* Only a Pong is a sign of life.  Other traffic from the peer (its own     *)
(* Ping, data frames) does not appear in the state of this model at all:   *)
(* it changes nothing.  The cases replayed on the real task come with and  *)
(* without such "chatter" (MC_KeepaliveCases.tla), and the trace           *)
(* specification ignores the chatter events, so an implementation that     *)
(* counts them as life is reported as NoTimeoutDetected / ExitTooLate.     *)
(*****)
(* C16: timed model of the keepalive of penguin-mux (task.rs               *)
(* schedule_ping_task, config.rs clamp).  Integer time.                    *)
(*                                                                         *)
(*  - The endpoint: an interval timer with period I whose first tick is    *)
(*    immediate; at every tick it compares (now - lastPong) with T and     *)
(*    either exits with KeepaliveTimeout (strictly greater) or sends Ping. *)
(*  - The environment: every Ping is answered after a delay chosen from    *)
(*    0..MaxD, or never; Pongs arrive in the order of their Pings.         *)
(*  - Events falling on the same instant may be processed in either order. *)
(*                                                                         *)
(* The monitors (the clauses of the property) are stated over the history  *)
(* (send times, arrival times, exit time) so that exactly the same         *)
(* definitions judge implementation traces in KeepaliveTrace.tla.          *)
(***************************************************************************)
EXTENDS KeepaliveDefs

CONSTANTS Is, Ts,      \* sets of interval / timeout values given to the options API (0 = disabled)
          MaxD,        \* largest pong delay
          Horizon      \* time bound of the exploration


VARIABLES I, T,        \* effective interval / timeout (0 = disabled)
          now, nextTick, lastPong,
          sent,        \* send times of the Pings
          arr,         \* arr[k] = arrival time of the Pong answering Ping k, or Never
          got,         \* number of Pongs already received
          exitAt       \* time of the KeepaliveTimeout exit, or Never

vars == <<I, T, now, nextTick, lastPong, sent, arr, got, exitAt>>

Init ==
  /\ \E i \in Is, t \in Ts : I = i /\ T = Clamp(i, t)
  /\ now = 0 /\ nextTick = 0 /\ lastPong = 0
  /\ sent = <<>> /\ arr = <<>> /\ got = 0 /\ exitAt = Never

Running == exitAt = Never
NextPongTime == IF got < Len(arr) /\ arr[got + 1] # Never THEN arr[got + 1] ELSE Never

(* FIFO link: a Pong cannot overtake the previous one *)
Arrival(s, d) ==
  IF d = Never THEN Never
  ELSE LET prev == IF Len(arr) = 0 THEN 0 ELSE arr[Len(arr)]
       IN IF prev = Never THEN Never ELSE IF s + d < prev THEN prev ELSE s + d

Tick ==
  /\ Running /\ I > 0 /\ nextTick <= Horizon
  /\ NextPongTime = Never \/ nextTick <= NextPongTime
  /\ now' = nextTick /\ nextTick' = nextTick + I
  /\ IF T > 0 /\ nextTick - lastPong > T
     THEN exitAt' = nextTick /\ UNCHANGED <<sent, arr>>
     ELSE /\ exitAt' = exitAt
          /\ sent' = Append(sent, nextTick)
          /\ \E d \in (0 .. MaxD) \cup {Never} : arr' = Append(arr, Arrival(nextTick, d))
  /\ UNCHANGED <<I, T, lastPong, got>>

Pong ==
  /\ Running /\ NextPongTime # Never /\ NextPongTime <= Horizon
  /\ I = 0 \/ NextPongTime <= nextTick
  /\ now' = NextPongTime /\ lastPong' = NextPongTime /\ got' = got + 1
  /\ UNCHANGED <<I, T, nextTick, sent, arr, exitAt>>

Next == Tick \/ Pong
Spec == Init /\ [][Next]_vars

InvPing      == PingEveryI(I, sent)
InvDisabled  == DisabledSilent(I, sent, exitAt)
InvNotEarly  == ExitNotEarly(T, lastPong, exitAt)
InvNotLate   == NoLateExit(I, T, lastPong, exitAt, now)
InvNoFalse   == NoFalseTimeout(T, sent, arr, got, exitAt)
(* what holds on the pinned design: false timeouts only when a Pong was slower than one interval *)
InvNoFalseOutsideF12 == NoFalseTimeout(T, sent, arr, got, exitAt) \/ F12Region(I, T)
InvClamp     == (I > 0 /\ T > 0) => T >= I
=============================================================================
