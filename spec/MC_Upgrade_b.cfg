\* C14 thorough, second run: singles and all pairs x 4 configurations with fallback = proxying to a backend
SPECIFICATION Spec
CONSTANTS
  MaxDev = 2
  UseBackends = {"echo"}
  NPick = 10
INVARIANTS TypeOK Laws Single Emit
CHECK_DEADLOCK FALSE
