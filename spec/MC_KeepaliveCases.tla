------------------------- MODULE MC_KeepaliveCases -------------------------
(* Enumerates the cases replayed on the real connection task: every (I, T) of the grid, both orders
   of the two builder calls, and every pong history "answered with delays d1..dn, then silent" with
   n <= MaxN and delays from Ds (a delay of Never inside the list = that Pong and all later ones are
   lost), each without and with "chatter": traffic from the peer that is not a Pong (its own Ping, a
   frame for an unknown flow) every second, which is no sign of life and must change nothing.
   One state = one case; every case is printed as a JSON line.                                      *)
EXTENDS KeepaliveDefs, Json

CONSTANTS Is, Ts, Ds, MaxN, Hz

VARIABLE case
Hist(n) == [1 .. n -> Ds]
Cases == {[I |-> i, T |-> t, order |-> o, delays |-> d, horizon |-> Hz, chatter |-> ch] :
            i \in Is, t \in Ts, o \in {"it", "ti"}, d \in UNION {Hist(n) : n \in 0 .. MaxN}, ch \in {0, 1}}
Init == case \in Cases
Next == UNCHANGED case
Spec == Init /\ [][Next]_case
Emit == PrintT(<<"CASE", ToJson(case)>>)
=============================================================================
