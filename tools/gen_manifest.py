#!/usr/bin/env python3
"""Regenerate /verif/MANIFEST.json from the table below (one source of truth for what is claimed)."""
import json, os
V = os.path.dirname(os.path.dirname(os.path.abspath(__file__)))
props = [json.loads(l) for l in open(os.path.join(V, "properties.jsonl"))]

MUX_TEXT = ("TLC checks the property's monitors exhaustively on bounded configurations of the explicit TLA+ specification "
            "(spec/PenguinMux.tla; every interleaving of application calls, connection-task steps and deliveries within the bound); "
            "the specification is bound to the code by trace validation: harness-random schedules are executed on the real penguin-mux "
            "endpoints in a hand-polled deterministic simulator and TLC must match every recorded event (API results, decoded frames on "
            "the link, wake-ups) against the specification's step functions with all monitors as invariants. Specification -> implementation: "
            "TLC-generated schedules (random walks of the specification at the simulator's grain, with faults, time steps, datagram bursts, a "
            "scripted adversarial peer; for C05/C06 also a breadth-first cover: one schedule per node of the bounded state graph) are executed on "
            "the real code and validated the same way. A trace whose first divergence speaks about other properties is judged once more, over its "
            "whole length, against the application-level contract spec/MuxApi.tla. C02-C06 add a threaded leg: real multiplexors on a multi-thread "
            "runtime, application calls racing with the connection tasks, every iteration decided by TLC against spec/MuxStressDefs.tla; C03/C04 "
            "also validate loom executions of the writer/credit race.")
MUX_NOTE = ("bounded model (2 endpoints, small windows/queues/ids); simulator atomicity = one poll of the task future; in-memory reliable "
            "ordered link whose sink buffers until flushed, with scripted faults; virtual time and the keepalive are part of the specification "
            "(KaStep) and of the simulator (paused clock); the threaded leg samples interleavings, it does not enumerate them")
REF_NOTE = "TLA+ used as an executable reference (decision procedure) rather than a state machine; decides the property on the enumerated domain plus random samples"

CLAIMED = {
    **{p: dict(engine="mux", technique="TLA+ spec (PenguinMux) model-checked with TLC + TLC trace validation of real-code executions from a deterministic simulator",
               text=MUX_TEXT, note=MUX_NOTE, ref="DESIGN.md sections 2-4")
       for p in ("C02", "C03", "C04", "C05", "C06", "C07", "C08", "C10", "C11", "C13", "C15")},
    "C09": dict(engine="frame", technique="TLA+ reference codec (Frame.tla) enumerated by TLC; every case replayed on the real codec and every observation validated by TLC",
                text="TLC enumerates encode cases over corner field domains and ALL byte strings up to a small length over a boundary alphabet (plus structured strings behind every opcode) from a reference codec written from PROTOCOL.md; the real encoder/decoder (all constructors, borrowed/owned/vectored, production profile for decoding) is run on every case and on seeded random frames/strings, and TLC validates every logged observation against the reference.",
                note=REF_NOTE, ref="DESIGN.md section 4 (C09)"),
    "C18": dict(engine="socks", technique="TLA+ reference grammar (Socks.tla) enumerated by TLC incl. every truncation point; real parsers/builders replayed; logs validated by TLC",
                text="The RFC 1928 / SOCKS4(a) grammar is written in TLA+; TLC checks its own laws (prefix law, UDP header round trip) and enumerates boundary requests with every truncation; the real penguin-socks readers/writers are run on every case (EOF and pending input modes) and on random requests, and TLC validates every observation (result, consumed bytes, produced bytes).",
                note=REF_NOTE, ref="DESIGN.md section 4 (C18)"),
    "C20": dict(engine="chain", technique="TLA+ model of chain operations (Chain.tla) explored by TLC; operation sequences replayed on LongChain/CowBytes; observations validated by TLC",
                text="TLC explores all operation sequences to a fixed depth from small chains with arguments at, inside and one past every boundary and checks that the canonical semantics meets the relational postcondition on the flattened sequence; every explored sequence is replayed on the real LongChain (borrowed and owned chunks, debug and production profiles) and TLC validates each observed step against the postcondition; CowBytes accessors/comparisons/hash are compared with TLA+-computed results. The consuming and observing methods every Buf inherits from the trait (copy_to_bytes, copy_to_slice, get_u8/get_u16, has_remaining, chunks_vectored) are operations / observations too, and a call that panics on an out-of-range argument must leave a well-formed value behind.",
                note=REF_NOTE, ref="DESIGN.md section 4 (C20)"),
    "C12": dict(engine="wake", technique="atomic-step TLA+ models checked by TLC (WriterWake.tla: sequentially consistent; WriterWakeRA.tla: view-based release/acquire memory with the AtomicWaker internals) + loom-enumerated executions of the real code validated by TLC against the same contract",
                text="TLC explores every interleaving of the writer's poll and the task's acknowledge/close at the grain of single atomic operations (spurious CAS failures included) for eight scenarios and checks the credit/wake-up contract (the pinned check-register-return algorithm is rejected as a self-test); an in-crate loom module (hook, feature verif-hooks) lets loom enumerate the interleavings of the REAL poll_obtain_write_permission / acknowledge / disallow_write under its C11 model, and TLC validates the observable history of every execution (results, which poll's waker was woken, final credit) against the same contract. WriterWakeRA.tla repeats the design-level check on a view-based release/acquire + relaxed memory model that includes the atomic operations inside futures' AtomicWaker (stale loads, release sequences, race freedom of the waker cell): the contract holds with the code's orderings and with all of penguin-mux's orderings relaxed; a flag-guarded wake that is correct under sequential consistency is rejected.",
                note="the weak-memory model (release/acquire + relaxed, no SeqCst fences, no promises) is a design-level model: orderings are not observable in traces; on the implementation side weak-memory behaviours are explored by loom's C11 approximation (no load buffering / out-of-thin-air); quick tier bounds loom preemptions at 3",
                ref="DESIGN.md section 4 (C12)"),
    "C17": dict(engine="tls", technique="TLA+ decision table + identity-reload state machine (TlsAuth.tla) enumerated by TLC; real rustls handshakes (in-memory duplex and the real server_main with SIGUSR1 reloads over loopback TCP) validated by TLC",
                text="TLC enumerates the 72-cell authentication matrix and all reload interleavings of a small identity state machine written from the property text (it carries the server's client CA and its generations: a reload replaces certificate and key and re-reads the client-CA bundle at the configured path, a rotation of that bundle in place takes effect at the next reload and not before, a failed reload changes nothing; a client-side machine covers a roots file replaced in place between connects; negative-control models -- stale, in-place, disconnecting, client-CA-dropping, stale-CA, eager-CA, stale-roots, deaf reloads -- must fail); every cell and script is executed as real handshakes with rcgen-generated chains: through the repository's own tls_connect / make_server_config / reload_tls_identity over an in-memory duplex, and through the real server entry point (server_main in-process on a loopback port, certificate files rewritten, SIGUSR1 raised, probes with a trusted client certificate, none, and one from another CA before and after every reload), with an application-data round trip deciding 'reached the server', and TLC validates every logged observation. Returning clients that keep their TLS state (one rustls ClientConfig per certificate across the connections of a script, TLS 1.3 and 1.2) offer tickets: the machine carries tickets, a ticket counts only under the configuration that issued it, and a shared-session-cache control must fail.",
                note="thin use of TLA+ (decision table + small state machine); cryptography trusted to rustls/webpki/rcgen; the application client is TLS 1.3 only, TLS 1.2 is covered on the server side with a reference client; the real-server part uses real time only for generous deadlines (30 s) that separate tool errors from observations",
                ref="DESIGN.md section 4 (C17)"),
    "C14": dict(engine="gate", technique="TLA+ decision table (Upgrade.tla) enumerated by TLC; every case sent in-process to the real hyper Service with an unknown-path twin; responses validated by TLC",
                text="The upgrade gate's decision table is written in TLA+ from the property text and PROTOCOL.md (three-valued: a variant the property does not decide is 'either'); TLC checks its theorems over all verdict vectors and enumerates the valid request, all single and pair deviations (thorough: triples, a configured backend) x configurations; every case is built as a concrete http::Request, sent to rusty_penguin_lib::server::State in-process together with the identical request on an unknown path, and TLC re-classifies the logged request octets itself and validates status, headers, body, protocol header and an independently computed RFC 6455 accept hash.",
                note="thin use of TLA+ (decision table); in-process call: hyper's HTTP/1 parser and the tunnel behind a 101 are not exercised; the backend-configured variant runs in the thorough tier only",
                ref="DESIGN.md section 4 (C14)"),
    "C19": dict(engine="retry", technique="TLA+ models of the back-off generator and of the reconnection loop (Backoff.tla, ClientRetry.tla) enumerated by TLC; real Backoff and real client against a scripted server; logs validated by TLC",
                text="Backoff.tla: TLC enumerates every small (initial, max, multiplier, max_count) tuple and every advance/reset sequence; each is replayed on the real penguin_mux::timing::Backoff and every returned value validated. ClientRetry.tla: the attempt loop with the clauses DelaySequence, ResetAfterSuccess, GiveUpExactly, NonRetryableEndsAtOnce, ListenerAlive, NoLostRequest; TLC enumerates scripts of server behaviours per attempt (refuse, stall, bad response, close orderly/abruptly after d ms, healthy); the real client_main_inner runs against a scripted fake server on loopback (a part of the scripts once more over wss:// behind a TLS-terminating relay, where a stalled attempt stalls inside or after the TLS handshake) and TLC validates each timeline (counts and order exact, time gaps with an exact lower and a generous upper bound).",
                note="real time and the real tokio runtime for the reconnection part (run sequentially, never overlapping with TLC); upper time bounds generous (delay + handshake_timeout + 1.5 s); a panic of Backoff next to Duration::MAX is accepted (outside the property's quantifier) and counted",
                ref="DESIGN.md section 4 (C19)"),
    "C01": dict(engine="tunnel", technique="TLA+ oracle of a direct connection (DirectConn.tla) model-checked by TLC, which also generates the scenario scripts; per-endpoint logs of a real client+server on loopback validated by TLC (interleaving search)",
                text="DirectConn.tla states, from the property text, what the two ends of a direct TCP connection observe (monitors Prefix, Complete, HalfClose, ClosedNotHanging) and the relation a UDP exchange must satisfy (SOCKS5 replies parsed by ParseUdp of Socks.tla); TLC checks the monitors on every interleaving of every pair of endpoint programs over an ideal connection, fails 14 negative-control networks, and generates the scenario shapes; a real penguin server and client run in-process on loopback with one remote per entry point kind (TCP port, Unix socket, SOCKS4/4a/5, HTTP CONNECT, UDP remote, SOCKS5 UDP association), every script is played with real sockets on both ends (position-coded payloads, every chunking/close order of the shapes, concurrent connections and UDP clients), and TLC validates each connection by searching the interleavings of the two endpoint logs for one the monitors accept.",
                note="real sockets and the real tokio runtime: schedules are whatever the runtime produces (sampled, not enumerated); one clock-based judgement (5 s 'left hanging' deadline); IPv4 loopback, plain WebSocket; completeness is not demanded where a direct connection would not promise it (after an abortive close / reset / refusal)",
                ref="DESIGN.md section 4 (C01)"),
    "C16": dict(engine="keepalive", technique="timed TLA+ model (Keepalive.tla) checked by TLC + virtual-time traces of the real task validated by TLC",
                text="TLC checks the clauses of C16 on the tick-based detector for every (I,T) of a grid and every pong history within the horizon (integer time); the real connection task runs on tokio's paused clock against a silent transport with a scripted responder for TLC-enumerated and random cases, and TLC evaluates the same clause definitions on every virtual-time trace. Second leg: the keepalive inside the full multiplexor specification (PenguinMux.KaStep / AutoPong, model-checked in MC_Ka) -- two real endpoints with streams in use in the deterministic simulator on the paused clock, a peer that is no longer polled, harness-random and TLC-generated schedules with time steps, every trace validated poll by poll against MuxTrace.",
                note="virtual time (exact); FIFO pongs; same-instant events may be processed in either order; finding F12 (false timeouts when I does not divide T) is a known design-level finding",
                ref="DESIGN.md section 4 (C16)"),
}
CLAIMED["C10"] = dict(CLAIMED["C10"],
    technique=CLAIMED["C10"]["technique"] + "; plus the WebSocket adapter leg: TLA+ contract of penguin-mux/src/ws.rs (WsAdapter.tla), TLC-enumerated scripts against a hand-written RFC 6455 peer, every line validated by TLC",
    text=CLAIMED["C10"]["text"] + " C10 adds the adapter leg: the simulator implements the WebSocket trait itself, so `impl WebSocket for tokio_tungstenite::WebSocketStream` and the "
         "message conversions of penguin-mux/src/ws.rs are specified separately (spec/WsAdapter.tla: delivery without loss, duplication or invention, Text as Binary, Ping/Pong/Close mapping, "
         "end of stream after Close, errors surfacing, one message per send, close frame behind everything sent); TLC checks the contract's laws, enumerates all scripts up to 3 (quick) / 4 "
         "(thorough) steps over boundary payload lengths, fragmentation, EOF and I/O errors, the real adapter is driven through the trait in both roles, and TLC validates every logged line.")

checks = []
for p in props:
    i = p["id"]
    if i in CLAIMED:
        c = CLAIMED[i]
        checks.append(dict(
            property_id=i, quick_cmd=f"./check {i} quick", thorough_cmd=f"./check {i} thorough",
            evidence_file=f"/verif/evidence/{i}.json", replay_cmd_template=f"./check {i} quick --replay {{path}}",
            engine=c["engine"], technique=c["technique"],
            level_claimed=dict(category="model_checking", text=c["text"], design_ref=c["ref"]),
            level_note=c["note"]))

PENDING = {}
manifest = dict(
    version=1, setup_cmd="python3 tools/setup.py",
    hooks=dict(guard="cargo feature `verif-hooks` of penguin-mux (the hook module is additionally gated by cfg(all(test, loom)))",
               enable="RUSTFLAGS='--cfg loom' cargo test -p penguin-mux --lib --features verif-hooks verif_wake (done by tools/fam_wake.py for C12, and by the C03 check, which validates the same loom executions for credit conservation); no other check needs a hook",
               baseline_off_cmd="cd /repo && cargo test --workspace --no-fail-fast --offline",
               source_commits=["8337027", "de00901", "9b35bf0"], add_only=True),
    engines=[
        dict(name="mux", path="tools/families.py", serves_properties=sorted(k for k, v in CLAIMED.items() if v["engine"] == "mux"),
             kind_free_text="TLC model checking of spec/MC_*.cfg + simulator (harness/src/bin/mux_sim.rs) + TLC trace validation (spec/MuxTrace.tla)"),
        dict(name="frame", path="tools/fam_frame.py", serves_properties=["C09"], kind_free_text="Frame.tla / MC_Frame.tla / FrameTrace.tla + harness frame_vec"),
        dict(name="socks", path="tools/fam_socks.py", serves_properties=["C18"], kind_free_text="Socks.tla / MC_Socks.tla / SocksTrace.tla + harness socks_vec"),
        dict(name="chain", path="tools/fam_chain.py", serves_properties=["C20"], kind_free_text="Chain.tla / ChainTrace.tla + harness chain_vec"),
        dict(name="keepalive", path="tools/fam_keepalive.py", serves_properties=["C16"], kind_free_text="Keepalive.tla / KeepaliveTrace.tla + harness keepalive_sim"),
        dict(name="gate", path="tools/fam_gate.py", serves_properties=["C14"], kind_free_text="Upgrade.tla / MC_Upgrade.tla / UpgradeTrace.tla + harness_app gate"),
        dict(name="tunnel", path="tools/fam_tunnel.py", serves_properties=["C01"], kind_free_text="DirectConn.tla / MC_DirectConn.tla / TunnelTrace.tla + harness_app tunnel"),
        dict(name="retry", path="tools/fam_retry.py", serves_properties=["C19"], kind_free_text="Backoff.tla / ClientRetry.tla / BackoffTrace.tla / RetryTrace.tla + harness backoff_vec + harness_app retry_sim"),
        dict(name="wake", path="tools/fam_wake.py", serves_properties=["C12"], kind_free_text="WriterWake.tla / WriterWakeRA.tla / WakeTrace.tla + loom hook penguin-mux/src/verif_wake.rs"),
        dict(name="tls", path="tools/fam_tls.py", serves_properties=["C17"], kind_free_text="TlsAuth.tla / MC_TlsAuth.tla / TlsTrace.tla + harness_app tls_matrix"),
    ],
    checks=checks,
    not_applicable=[dict(property_id=k, reason=v) for k, v in PENDING.items() if k not in CLAIMED],
    notes="See DESIGN.md. Repairs of genuine defects are 'fix:' commits in /repo, listed in KNOWN_FINDINGS.json; seeded changes and what catches them are under seeded/.")
json.dump(manifest, open(os.path.join(V, "MANIFEST.json"), "w"), indent=1)
print("claimed:", [c["property_id"] for c in checks])
