\* C17 thorough: the 72 cells of the matrix + every interleaving of <= 3 connections, <= 3 reloads, <= 3 uses,
\* with and without mutual TLS
SPECIFICATION Spec
CONSTANTS
  Mode = "swap"
  MaxConn = 3
  MaxReload = 3
  MaxUse = 3
  Mtls = {FALSE, TRUE}
INVARIANTS TypeOK Undisturbed Fresh Emit
CHECK_DEADLOCK FALSE
