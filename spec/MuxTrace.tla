------------------------------ MODULE MuxTrace ------------------------------
(***************************************************************************)
(* Trace specification: checks an ndjson trace recorded by the simulator   *)
(* (harness/src/sim.rs) against PenguinMux.  Every event is matched by the *)
(* step function of the specification applied to the logged arguments,     *)
(* with the step's observable outcome (`obs`) bound to the logged result   *)
(* and to the decoded frames that crossed the link.  What the trace does   *)
(* not log (credit, slot table, queues, acknowledgement decisions) is      *)
(* inferred by TLC.  All monitors of the specification are evaluated in    *)
(* every state of the matched behaviour (invariant NoViolation etc.).      *)
(*                                                                         *)
(* Acceptance: POSTCONDITION Accepted -- the search reached the last line. *)
(***************************************************************************)
EXTENDS Bridge, Json, IOUtils, Integers

Rec == ndJsonDeserialize(IOEnv.TRACE)

VARIABLES st, l, hm

tvars == <<st, l, hm>>

Fld(rec, name, dflt) == IF name \in DOMAIN rec THEN rec[name] ELSE dflt
(* what the options API must make of the keepalive values it is given (config.rs): timeout >= interval when both are set *)
ClampT(i, t) == IF t = 0 THEN 0 ELSE IF i = 0 THEN t ELSE IF t < i THEN i ELSE t
CfgOf(r) == [e \in E |-> [rwnd |-> r.cfg[e].rwnd, thr |-> r.cfg[e].thr, acceptCap |-> r.cfg[e].acceptCap,
                          dgCap |-> r.cfg[e].dgCap, bindCap |-> r.cfg[e].bindCap, retries |-> r.cfg[e].retries,
                          kaI |-> Fld(r.cfg[e], "kaI", 0),
                          kaT |-> ClampT(Fld(r.cfg[e], "kaI", 0), Fld(r.cfg[e], "kaT", 0))]]

NoMap == [e \in E |-> <<>>]

Init == /\ l = 2
        /\ Rec[1].ev = "reset"
        /\ st = InitState(CfgOf(Rec[1]))
        /\ hm = NoMap
        /\ TLCSet(1, 2) /\ TLCSet(2, <<InitState(CfgOf(Rec[1])), NoMap>>) /\ TLCSet(3, {})

R == Rec[l]
Is(ev) == l <= Len(Rec) /\ R.ev = ev /\ l' = l + 1

(* harness handle name -> specification handle *)
H(e, name) == IF name \in DOMAIN hm[e] THEN hm[e][name] ELSE 0
NameOf(e, h) == IF \E n \in DOMAIN hm[e] : hm[e][n] = h
                THEN CHOOSE n \in DOMAIN hm[e] : hm[e][n] = h ELSE 0
Bind(e, name, h) == hm' = [hm EXCEPT ![e] = [x \in (DOMAIN hm[e]) \cup {name} |-> IF x = name THEN h ELSE hm[e][x]]]
Tag(name) == ((name - 1) % 8) + 1

(* a message of the specification equals a decoded frame; `e` is the endpoint that sent it *)
MsgEq(m, j, e) ==
  /\ m.op = j.op
  /\ m.op \in {"connect", "ack", "reset", "finish", "push", "bind", "dgram"} => m.id = j.id
  /\ m.op \in {"connect", "ack"} => m.n = j.n
  /\ m.op \in {"connect", "bind", "dgram"} => m.host = j.host /\ m.port = j.port
  /\ m.op = "bind" => m.bt = j.bt
  /\ m.op = "dgram" => m.data = j.data
  /\ m.op = "push" => /\ m.len = j.len
                      /\ m.len > 0 => /\ j.okrun
                                      /\ j.off = m.off % 32
                                      /\ j.w = Tag(NameOf(e, m.w))

SeqEq(ms, js, e) == Len(ms) = Len(js) /\ \A k \in 1 .. Len(ms) : MsgEq(ms[k], js[k], e)

(* flow ids drawn by the scripted generator: all but the last were rejected (0 or in use), the last is the id used *)
DrawsOk(s, e, d, id) ==
  /\ Len(d) >= 1 /\ d[Len(d)] = id
  /\ \A k \in 1 .. (Len(d) - 1) : d[k] = 0 \/ HasSlot(s, e, d[k])

LastOr(d, dflt) == IF Len(d) = 0 THEN dflt ELSE d[Len(d)]

(* ------------------------------------------------------------------ *)
TOpen ==
  /\ Is("open")
  /\ LET r == R IN
     /\ st' \in OpenStart(st, r.e, r.c, r.host, r.port, LastOr(r.draws, 0))
     /\ DrawsOk(st, r.e, r.draws, LastOr(r.draws, 0))
     /\ st'.obs.res = r.res
     /\ UNCHANGED hm

TOpenPoll ==
  /\ Is("open_poll")
  /\ LET r == R IN
     /\ st' \in OpenPoll(st, r.e, r.c, LastOr(r.draws, 0))
     /\ st'.obs.res = r.res
     (* ids are drawn exactly when the previous attempt was rejected and a new Connect is sent *)
     /\ (Len(r.draws) > 0) => /\ DrawsOk(st, r.e, r.draws, LastOr(r.draws, 0))
                              /\ r.res \in {"pending", "closed"} /\ st'.obs.id = LastOr(r.draws, 0)
     /\ (Len(r.draws) = 0 /\ r.res = "pending") => st'.obs.id = 0
     /\ IF r.res = "ok" THEN st'.obs.id = r.id /\ Bind(r.e, r.h, st'.obs.h) ELSE UNCHANGED hm

TAccept ==
  /\ Is("accept")
  /\ LET r == R IN
     /\ st' \in Accept(st, r.e)
     /\ st'.obs.res = r.res
     /\ IF r.res = "ok"
        THEN /\ st'.obs.id = r.id /\ st'.obs.host = r.host /\ st'.obs.port = r.port
             /\ Bind(r.e, r.h, st'.obs.h)
        ELSE UNCHANGED hm

TWrite ==
  /\ Is("write")
  /\ LET r == R IN
     /\ st' \in Write(st, r.e, H(r.e, r.h), r.len)
     /\ st'.obs.res = r.res
     /\ st'.obs.n = r.n
     /\ UNCHANGED hm

TRead ==
  /\ Is("read")
  /\ LET r == R IN
     /\ st' \in Read(st, r.e, H(r.e, r.h), r.max)
     /\ st'.obs.res = r.res
     /\ r.res = "data" => /\ st'.obs.n = r.n
                          /\ r.okrun
                          /\ r.off = st'.obs.off % 32
                          (* bytes of the scripted raw peer carry the tag it chose *)
                          /\ r.w = IF NameOf(Peer(r.e), st'.obs.w) = 0 THEN Tag(st'.obs.w)
                                    ELSE Tag(NameOf(Peer(r.e), st'.obs.w))
     /\ UNCHANGED hm

TShutdown ==
  /\ Is("shutdown")
  /\ st' \in Shutdown(st, R.e, H(R.e, R.h)) /\ st'.obs.res = R.res /\ UNCHANGED hm

TDropS ==
  /\ Is("drop")
  /\ st' \in DropStream(st, R.e, H(R.e, R.h)) /\ UNCHANGED hm

TDropMux ==
  /\ Is("drop_mux")
  /\ st' \in DropMux(st, R.e) /\ UNCHANGED hm

TCancel ==
  /\ Is("cancel")
  /\ st' \in CancelCall(st, R.e, R.c) /\ UNCHANGED hm

TDgSend ==
  /\ Is("dg_send")
  /\ LET r == R IN
     /\ st' \in SendDgram(st, r.e, r.id, r.host, r.port, r.data, r.long)
     /\ st'.obs.res = r.res
     /\ UNCHANGED hm

TDgGet ==
  /\ Is("dg_get")
  /\ LET r == R IN
     /\ st' \in GetDgram(st, r.e)
     /\ st'.obs.res = r.res
     /\ r.res = "ok" => st'.obs.id = r.id /\ st'.obs.host = r.host /\ st'.obs.port = r.port /\ st'.obs.data = r.data
     /\ UNCHANGED hm

TBind ==
  /\ Is("bind")
  /\ LET r == R IN
     /\ st' \in BindStart(st, r.e, r.c, r.bt, r.host, r.port, LastOr(r.draws, 0))
     /\ DrawsOk(st, r.e, r.draws, LastOr(r.draws, 0))
     /\ st'.obs.res = r.res
     /\ UNCHANGED hm

TBindPoll ==
  /\ Is("bind_poll")
  /\ st' \in BindPoll(st, R.e, R.c) /\ st'.obs.res = R.res /\ UNCHANGED hm

TNextBind ==
  /\ Is("next_bind")
  /\ LET r == R IN
     /\ st' \in NextBind(st, r.e)
     /\ st'.obs.res = r.res
     /\ r.res = "ok" => /\ st'.obs.h = r.r /\ st'.obs.id = r.id /\ st'.obs.bt = r.bt
                        /\ st'.obs.host = r.host /\ st'.obs.port = r.port
     /\ UNCHANGED hm

TBindReply ==
  /\ Is("bind_reply")
  /\ st' \in BindReply(st, R.e, R.r, R.accept) /\ st'.obs.res = R.res /\ UNCHANGED hm

TBindDrop ==
  /\ Is("bind_drop")
  /\ st' \in BindDrop(st, R.e, R.r) /\ UNCHANGED hm

TTask ==
  /\ Is("task")
  /\ LET r == R IN
     /\ st' \in TaskPollF(st, r.e, r.gr, r.gs, Fld(r, "gf", 1))
     /\ st'.obs.res = r.res
     /\ st'.obs.rcv.op = r.rcv.op
     /\ r.rcv.op \in {"connect", "ack", "reset", "finish", "push", "bind", "dgram"} => st'.obs.rcv.id = r.rcv.id
     /\ SeqEq(st'.obs.sent, r.sent, r.e)
     (* every waiter the specification says must be woken by this poll was woken *)
     /\ \A w \in st'.obs.wake :
           LET bridged == w.k \in {"w", "r"} /\ st.hnd[w.e][w.x].st = "bridge"
               bidx == IF bridged THEN CHOOSE b \in DOMAIN st.br[w.e] : st.br[w.e][b].h = w.x ELSE 0
               nm == CASE bridged -> "br:" \o w.e \o ":" \o ToString(bidx)
                       [] w.k = "w" -> "w:" \o w.e \o ":" \o ToString(NameOf(w.e, w.x))
                       [] w.k = "r" -> "r:" \o w.e \o ":" \o ToString(NameOf(w.e, w.x))
                       [] w.k = "c" -> "c:" \o w.e \o ":" \o ToString(w.x)
                       [] OTHER -> ""
               (* a waiter registered by the application before the stream was handed to a bridge keeps
                  the application's waker until the bridge registers its own *)
               nm2 == IF bridged THEN w.k \o ":" \o w.e \o ":" \o ToString(NameOf(w.e, w.x)) ELSE nm
           IN (~bridged /\ w.k \in {"w", "r"} /\ NameOf(w.e, w.x) = 0) \/ nm = ""
              \/ \E k \in 1 .. Len(r.woke) : r.woke[k] = nm \/ r.woke[k] = nm2
     /\ UNCHANGED hm

TFault ==
  /\ Is("fault")
  /\ LET r == R IN
     /\ st' \in (CASE r.kind \in {"cutsrc", "cutsrcs"} -> CutSrc(st, r.e)
                   [] r.kind = "endsrc"  -> EndSrc(st, r.e)
                   [] r.kind = "cutsink" -> CutSink(st, r.e)
                   [] r.kind = "softcut" -> SoftCutSink(st, r.e)
                   [] OTHER -> {})
     /\ UNCHANGED hm

(* virtual time passes (whole seconds) *)
TAdvance ==
  /\ Is("advance")
  /\ R.frac = 0
  /\ st' \in AdvanceTo(st, R.t) /\ UNCHANGED hm

JMsg(j) == [MkMsg(j.op) EXCEPT !.id = j.id, !.n = j.n, !.host = j.host, !.port = j.port,
                               !.w = j.w, !.off = j.off, !.len = j.len, !.bt = j.bt, !.data = j.data]

TInject ==
  /\ Is("inject")
  /\ st' \in Inject(st, R.e, JMsg(R.m)) /\ UNCHANGED hm

(* the scripted raw peer takes the next message addressed to it *)
TTake ==
  /\ Is("take")
  /\ LET r == R IN
     /\ st.wire[Peer(r.e)] # <<>>
     /\ MsgEq(Head(st.wire[Peer(r.e)]), r.m, Peer(r.e))
     /\ st' = [st EXCEPT !.wire[Peer(r.e)] = Tail(@), !.obs = NoObs]
     /\ UNCHANGED hm

(* ---- the bridge (C13) ---- *)
JAns(j) == Ans(j.k, j.n)
JEnv(j) == [rd |-> [i \in 1 .. Len(j.rd) |-> JAns(j.rd[i])], wr |-> [i \in 1 .. Len(j.wr) |-> JAns(j.wr[i])],
            fl |-> JAns(j.fl), sh |-> JAns(j.sh)]
TBridgeStart ==
  /\ Is("bridge_start")
  /\ st' \in BridgeStart(st, R.e, H(R.e, R.h)) /\ st'.obs.h = R.b /\ UNCHANGED hm
TBridgePoll ==
  /\ Is("bridge_poll")
  /\ LET r == R IN
     /\ st' \in BridgePoll(st, r.e, r.b, JEnv(r.env))
     /\ st'.obs.res = r.res
     /\ r.res = "ok" => st'.obs.id = r.rn /\ st'.obs.port = r.wn
     (* bytes handed to the local side in this poll: same runs, in order *)
     /\ Len(st'.obs.sent) = Len(r.lw)
     /\ \A k \in 1 .. Len(r.lw) :
           LET m == st'.obs.sent[k] j == r.lw[k] IN
           /\ m.len = j.n /\ j.okrun /\ j.off = m.off % 32
           /\ j.w = IF NameOf(Peer(r.e), m.w) = 0 THEN Tag(m.w) ELSE Tag(NameOf(Peer(r.e), m.w))
     /\ st'.obs.off = r.lc            \* local bytes consumed
     /\ st'.obs.n = r.shut            \* poll_shutdown calls on the local side
     /\ st'.obs.bt = r.fl             \* poll_flush called
     (* a Pending result must leave the waker with every local operation the specification says it waits on *)
     /\ \A hd \in st'.obs.hold : hd \in {"us_r", "us_w"} \/ \E k \in 1 .. Len(r.holds) : r.holds[k] = hd
     /\ UNCHANGED hm
TBridgeDrop ==
  /\ Is("bridge_drop")
  /\ st' \in BridgeDrop(st, R.e, R.b) /\ UNCHANGED hm

(* end of one trace inside a batch *)
TReset ==
  /\ Is("reset")
  /\ st' = InitState(CfgOf(R))
  /\ hm' = NoMap

(* harness-side marker: nothing more will happen unless the application acts.  The specification
   must agree that the system is quiescent.                                                     *)
TQuiesce ==
  /\ Is("quiesce")
  /\ \A e \in E : st.task[e].ph = "run" =>
        /\ st.outq[e] = <<>> \/ st.sink[e] # "open"
        /\ st.unfl[e] = <<>> \/ st.sink[e] # "open"
        /\ st.drops[e] = <<>>
        /\ st.rxblk[e].k = "none" \/ R.lazy
  (* C08: nothing blocks forever -- a task that left its main loop has finished by the time the
     system is quiescent (both tasks were polled with full grants until nothing changed).
     Known finding F20: after a graceful end (its Close was sent) a task waits without bound for the
     peer's Close; a peer whose receive loop is stalled by a full accept / bind queue, because its
     application takes nothing, never answers, and whatever is pending at the waiting endpoint
     stays pending.  Exactly that situation is recorded (st.kf) instead of being rejected. *)
  /\ LET Waiting(e) == /\ st.task[e].ph = "drain"
                        /\ st.task[Peer(e)].ph = "run" /\ st.rxblk[Peer(e)].k # "none" /\ R.lazy
         stuck == {e \in E : Waiting(e)}
     IN /\ \A e \in E : st.task[e].ph \in {"run", "done"} \/ e \in stuck
        /\ st' = IF stuck = {} THEN st ELSE [st EXCEPT !.kf = @ \cup {"DrainStalledPeer"}]
  /\ UNCHANGED hm

Next ==
  \/ TOpen \/ TOpenPoll \/ TAccept \/ TWrite \/ TRead \/ TShutdown \/ TDropS \/ TDropMux \/ TCancel
  \/ TDgSend \/ TDgGet \/ TBind \/ TBindPoll \/ TNextBind \/ TBindReply \/ TBindDrop
  \/ TTask \/ TFault \/ TAdvance \/ TInject \/ TTake \/ TReset \/ TQuiesce
  \/ TBridgeStart \/ TBridgePoll \/ TBridgeDrop

Spec == Init /\ [][Next]_tvars

(* ------------------------------------------------------------------ *)
NoViolation == st.viol = {}
AckSound == \A e \in E : \A h \in DOMAIN st.hnd[e] : st.hnd[e][h].ackSent <= st.hnd[e][h].consumed
QueueBound == \A e \in E : \A h \in DOMAIN st.hnd[e] : Len(st.hnd[e][h].inq) <= st.cfg[e].rwnd
InitialCredit ==
  st.healthy => \A e \in E : \A h \in DOMAIN st.hnd[e] : st.hnd[e][h].adv = st.cfg[Peer(e)].rwnd
NoOrphanWriter == NoOrphanWriterS(st)
DoneResolved ==
  \A e \in E : st.task[e].ph = "done" =>
     /\ \A c \in DOMAIN st.calls[e] : st.calls[e][c].resp # "pending"
     /\ \A h \in DOMAIN st.hnd[e] : st.hnd[e][h].st # "dropped" => st.hnd[e][h].closedW /\ ~SenderAlive(st, e, h)

(* progress register: the furthest line matched so far (workers 1) *)
Track == /\ IF TLCGet(1) < l THEN TLCSet(1, l) /\ TLCSet(2, <<st, hm>>) ELSE TRUE
         /\ IF st.kf \subseteq TLCGet(3) THEN TRUE ELSE TLCSet(3, TLCGet(3) \cup st.kf)

(* what the specification would have produced for the unmatched event (diagnosis and attribution) *)
HH(m, e, name) == IF name \in DOMAIN m[e] THEN m[e][name] ELSE 0
ExpStates(s, m, r) ==
  CASE r.ev = "open"      -> OpenStart(s, r.e, r.c, r.host, r.port, LastOr(r.draws, 0))
    [] r.ev = "open_poll" -> OpenPoll(s, r.e, r.c, LastOr(r.draws, 0))
    [] r.ev = "accept"    -> Accept(s, r.e)
    [] r.ev = "write"     -> Write(s, r.e, HH(m, r.e, r.h), r.len)
    [] r.ev = "read"      -> Read(s, r.e, HH(m, r.e, r.h), r.max)
    [] r.ev = "shutdown"  -> Shutdown(s, r.e, HH(m, r.e, r.h))
    [] r.ev = "drop"      -> DropStream(s, r.e, HH(m, r.e, r.h))
    [] r.ev = "drop_mux"  -> DropMux(s, r.e)
    [] r.ev = "cancel"    -> CancelCall(s, r.e, r.c)
    [] r.ev = "dg_send"   -> SendDgram(s, r.e, r.id, r.host, r.port, r.data, r.long)
    [] r.ev = "dg_get"    -> GetDgram(s, r.e)
    [] r.ev = "bind"      -> BindStart(s, r.e, r.c, r.bt, r.host, r.port, LastOr(r.draws, 0))
    [] r.ev = "bind_poll" -> BindPoll(s, r.e, r.c)
    [] r.ev = "next_bind" -> NextBind(s, r.e)
    [] r.ev = "bind_reply" -> BindReply(s, r.e, r.r, r.accept)
    [] r.ev = "bind_drop" -> BindDrop(s, r.e, r.r)
    [] r.ev = "task"      -> TaskPollF(s, r.e, r.gr, r.gs, Fld(r, "gf", 1))
    [] r.ev = "bridge_start" -> BridgeStart(s, r.e, HH(m, r.e, r.h))
    [] r.ev = "bridge_poll"  -> BridgePoll(s, r.e, r.b, JEnv(r.env))
    [] r.ev = "bridge_drop"  -> BridgeDrop(s, r.e, r.b)
    [] OTHER -> {}
ObsView(t, m) ==
  [res |-> t.obs.res, n |-> t.obs.n, off |-> t.obs.off, h |-> t.obs.h, id |-> t.obs.id,
   host |-> t.obs.host, port |-> t.obs.port, data |-> t.obs.data, rcv |-> t.obs.rcv.op,
   sent |-> [k \in 1 .. Len(t.obs.sent) |->
               [op |-> t.obs.sent[k].op, id |-> t.obs.sent[k].id, n |-> t.obs.sent[k].n,
                len |-> t.obs.sent[k].len, off |-> t.obs.sent[k].off]],
   wake |-> {w.k \o ":" \o w.e \o ":" \o ToString(w.x) : w \in t.obs.wake}, hold |-> t.obs.hold, ack |-> t.obs.ack, bt |-> t.obs.bt,
   viol |-> t.viol]
Expected(s, m, r) == SetToSeq({ObsView(t, m) : t \in ExpStates(s, m, r)})

Accepted ==
  \/ TLCGet(1) = Len(Rec) + 1 /\ PrintT(<<"KF", TLCGet(3)>>)
  \/ /\ PrintT(<<"REJECTED at line", TLCGet(1), "of", Len(Rec)>>)
     /\ (TLCGet(1) <= Len(Rec) => PrintT(<<"UNMATCHED", ToJson(Rec[TLCGet(1)])>>))
     /\ (TLCGet(1) <= Len(Rec) => PrintT(<<"EXPECTED", ToJson(Expected(TLCGet(2)[1], TLCGet(2)[2], Rec[TLCGet(1)]))>>))
     /\ PrintT(<<"LASTSTATE", ToJson(TLCGet(2)[1])>>)
     /\ PrintT(<<"KF", TLCGet(3)>>)
     /\ FALSE
=============================================================================
