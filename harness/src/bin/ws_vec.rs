//! WsAdapter driver: runs scripts against the adapter `impl penguin_mux::ws::WebSocket for
//! tokio_tungstenite::WebSocketStream<RW>` (and the two `From` conversions behind it) of
//! /repo/penguin-mux/src/ws.rs and logs what it observes as ndjson.  It never judges: TLC validates
//! every logged line against spec/WsAdapter.tla (spec/WsAdapterTrace.tla).
//!
//!   ws_vec cases <cases.ndjson> <out.ndjson>
//!       one script per line, as printed by TLC (spec/MC_WsAdapter.tla) or kept in a replay file:
//!         {"role":"server"|"client","steps":[step,...][,"rchunk":n][,"wchunk":n][,"src":"..."]}
//!       step:
//!         {"op":"feed","what":"binary"|"text"|"cont","len":n,"fin":true|false}   one data frame
//!         {"op":"feed","what":"ping"|"pong","len":n}                             one control frame
//!         {"op":"feed","what":"close","var":0|1|2|3}    no payload | code | code+reason | code+123 octets
//!         {"op":"feed","what":"frag","len":n,"cut":c,"plen":p}   binary FIN=0 (c octets), ping(p), continuation FIN=1
//!         {"op":"feed","what":"bad","why":"opcode"|"rsv"|"bigctl"|"fragctl"|"mask"}   a protocol violation
//!         {"op":"feed","what":"eof"}   {"op":"feed","what":"ioerr","rst":true|false}  the read side ends
//!         {"op":"next"}                               poll_next_unpin
//!         {"op":"send","kind":"binary","len":n} | {"op":"send","kind":"ping"|"pong"|"close"}
//!                                                     poll_ready_unpin, then start_send_unpin
//!         {"op":"flush"}  {"op":"close"}              poll_flush_unpin / poll_close_unpin
//!         {"op":"wfail"}                              from now on the transport refuses every write
//!   ws_vec random <seed> <count> <out.ndjson>
//!       `count` seeded random scripts (6..40 steps), each run as server and as client.
//!
//! The raw peer is this file: an RFC 6455 frame ENCODER (masking its frames when the adapter is a
//! server) and a frame DECODER with message reassembly for the octets the adapter wrote, both written
//! from the RFC without any code of tungstenite.  The adapter is called only through the methods of the
//! trait `penguin_mux::ws::WebSocket`, polled by hand with a counting waker.
//!
//! Payloads are position coded and logged as a projection, not as data:
//!   "m251"  octet i of payload k = (37 k + i) mod 251         (binary, ping, pong)
//!   "a95"   octet i of payload k = 32 + ((37 k + i) mod 95)    (text: printable ASCII, valid UTF-8)
//! fed payloads are numbered k = 0, 1, .. in feed order, sent payloads k = 128, 129, ..; a continuation
//! frame continues the numbering of the message it belongs to.  The projection of a payload is its length,
//! its first octet (-1 when empty) and whether it is a run of either coding (`r251`, `r95`).
use bytes::Bytes;
use penguin_mux::ws::Message;
use rand::rngs::SmallRng;
use rand::{RngExt, SeedableRng};
use serde_json::{Value, json};
use std::io::{BufRead, BufReader, BufWriter, Write};
use std::panic::{AssertUnwindSafe, catch_unwind};
use std::pin::Pin;
use std::sync::atomic::{AtomicUsize, Ordering};
use std::sync::{Arc, Mutex};
use std::task::{Context, Poll, Wake, Waker};
use tokio::io::{AsyncRead, AsyncWrite, ReadBuf};
use tokio_tungstenite::WebSocketStream;
use tokio_tungstenite::tungstenite::protocol::Role;

// ------------------------------------------------------------------------------------------------
// the transport under the adapter
// ------------------------------------------------------------------------------------------------
#[derive(Clone, Copy, PartialEq)]
enum RdEnd {
    Open,
    Eof,
    Err(std::io::ErrorKind),
}

struct Pipe {
    rbuf: Vec<u8>,
    rpos: usize,
    rend: RdEnd,
    rchunk: usize,
    written: Vec<u8>,
    wfail: bool,
    wchunk: usize,
    shutdown: bool,
}

/// In-memory `AsyncRead + AsyncWrite`: the read side hands out exactly the octets fed so far, then
/// `Pending`, end of file or an error as scripted; the write side records octets or fails as scripted.
struct PipeIo(Arc<Mutex<Pipe>>);

impl AsyncRead for PipeIo {
    fn poll_read(self: Pin<&mut Self>, _cx: &mut Context<'_>, buf: &mut ReadBuf<'_>) -> Poll<std::io::Result<()>> {
        let mut p = self.0.lock().unwrap();
        if p.rpos < p.rbuf.len() {
            let mut n = buf.remaining().min(p.rbuf.len() - p.rpos);
            if p.rchunk > 0 {
                n = n.min(p.rchunk);
            }
            let at = p.rpos;
            buf.put_slice(&p.rbuf[at..at + n]);
            p.rpos += n;
            return Poll::Ready(Ok(()));
        }
        match p.rend {
            RdEnd::Open => Poll::Pending,
            RdEnd::Eof => Poll::Ready(Ok(())),
            RdEnd::Err(kind) => Poll::Ready(Err(std::io::Error::new(kind, "scripted read error"))),
        }
    }
}

impl AsyncWrite for PipeIo {
    fn poll_write(self: Pin<&mut Self>, _cx: &mut Context<'_>, buf: &[u8]) -> Poll<std::io::Result<usize>> {
        let mut p = self.0.lock().unwrap();
        if p.wfail {
            return Poll::Ready(Err(std::io::Error::new(std::io::ErrorKind::BrokenPipe, "scripted write error")));
        }
        let n = if p.wchunk > 0 { buf.len().min(p.wchunk) } else { buf.len() };
        p.written.extend_from_slice(&buf[..n]);
        Poll::Ready(Ok(n))
    }
    fn poll_flush(self: Pin<&mut Self>, _cx: &mut Context<'_>) -> Poll<std::io::Result<()>> {
        let p = self.0.lock().unwrap();
        if p.wfail {
            return Poll::Ready(Err(std::io::Error::new(std::io::ErrorKind::BrokenPipe, "scripted write error")));
        }
        Poll::Ready(Ok(()))
    }
    fn poll_shutdown(self: Pin<&mut Self>, _cx: &mut Context<'_>) -> Poll<std::io::Result<()>> {
        let mut p = self.0.lock().unwrap();
        if p.wfail {
            return Poll::Ready(Err(std::io::Error::new(std::io::ErrorKind::BrokenPipe, "scripted write error")));
        }
        p.shutdown = true;
        Poll::Ready(Ok(()))
    }
}

struct CountWaker(AtomicUsize);
impl Wake for CountWaker {
    fn wake(self: Arc<Self>) {
        self.0.fetch_add(1, Ordering::SeqCst);
    }
    fn wake_by_ref(self: &Arc<Self>) {
        self.0.fetch_add(1, Ordering::SeqCst);
    }
}

// ------------------------------------------------------------------------------------------------
// position-coded payloads and their projection
// ------------------------------------------------------------------------------------------------
fn code_m251(k: u64, off: usize, len: usize) -> Vec<u8> {
    (0..len).map(|i| ((k * 37 + (off + i) as u64) % 251) as u8).collect()
}

fn code_a95(k: u64, off: usize, len: usize) -> Vec<u8> {
    (0..len).map(|i| 32 + ((k * 37 + (off + i) as u64) % 95) as u8).collect()
}

fn projection(p: &[u8]) -> (i64, bool, bool) {
    let first = p.first().map_or(-1, |b| i64::from(*b));
    let r251 = p.iter().all(|b| *b < 251) && p.windows(2).all(|w| (u16::from(w[0]) + 1) % 251 == u16::from(w[1]));
    let r95 = p.iter().all(|b| (32..127).contains(b))
        && p.windows(2).all(|w| (u16::from(w[0]) - 32 + 1) % 95 + 32 == u16::from(w[1]));
    (first, r251, r95)
}

// ------------------------------------------------------------------------------------------------
// RFC 6455 section 5.2: the frame encoder of the raw peer
//
//   0               1               2               3
//   |F|R|R|R| opcode|M| Payload len |    Extended payload length (16 or 64 bits)   ...
//   |I|S|S|S|  (4)  |A|     (7)     |    Masking-key (32 bits) if MASK set         ...
//   |N|V|V|V|       |S|             |    Payload Data
//
// opcode 0 continuation, 1 text, 2 binary, 8 close, 9 ping, 10 pong; payload length 0-125 in 7 bits,
// 126 = the following 2 octets (network order), 127 = the following 8 octets; masked octet i =
// original octet i XOR key[i mod 4] (section 5.3).
// ------------------------------------------------------------------------------------------------
fn encode_frame(out: &mut Vec<u8>, fin: bool, rsv: u8, opcode: u8, mask: Option<[u8; 4]>, payload: &[u8]) {
    out.push((u8::from(fin) << 7) | ((rsv & 7) << 4) | (opcode & 0x0f));
    let m = if mask.is_some() { 0x80u8 } else { 0 };
    let n = payload.len();
    if n < 126 {
        out.push(m | n as u8);
    } else if n <= 0xffff {
        out.push(m | 126);
        out.extend_from_slice(&(n as u16).to_be_bytes());
    } else {
        out.push(m | 127);
        out.extend_from_slice(&(n as u64).to_be_bytes());
    }
    match mask {
        Some(key) => {
            out.extend_from_slice(&key);
            out.extend(payload.iter().enumerate().map(|(i, b)| b ^ key[i % 4]));
        }
        None => out.extend_from_slice(payload),
    }
}

// ------------------------------------------------------------------------------------------------
// the frame decoder for what the adapter wrote, with message reassembly (section 5.4)
// ------------------------------------------------------------------------------------------------
struct OpenMsg {
    opcode: u8,
    payload: Vec<u8>,
    frags: u64,
    masked: u64,
    minenc: bool,
}

#[derive(Default)]
struct WireDec {
    buf: Vec<u8>,
    open: Option<OpenMsg>,
    garbage: bool,
}

fn kind_of(opcode: u8) -> &'static str {
    match opcode {
        1 => "text",
        2 => "binary",
        8 => "close",
        9 => "ping",
        10 => "pong",
        _ => "garbage",
    }
}

fn wire_msg(opcode: u8, payload: &[u8], frags: u64, masked: u64, minenc: bool) -> Value {
    let (first, r251, r95) = projection(payload);
    let code = if opcode == 8 && payload.len() >= 2 { i64::from(u16::from_be_bytes([payload[0], payload[1]])) } else { -1 };
    json!({"kind": kind_of(opcode), "len": payload.len(), "first": first, "r251": r251, "r95": r95,
           "frags": frags, "masked": masked, "minenc": minenc, "code": code})
}

impl WireDec {
    fn garbage(&mut self, why: &str, out: &mut Vec<Value>) {
        self.garbage = true;
        out.push(json!({"kind": "garbage", "len": 0, "first": -1, "r251": false, "r95": false, "frags": 0,
                        "masked": 0, "minenc": false, "code": -1, "why": why}));
    }

    /// octets written but not (yet) part of a complete message
    fn residue(&self) -> usize {
        self.buf.len() + self.open.as_ref().map_or(0, |o| o.payload.len() + 1)
    }

    fn push(&mut self, bytes: &[u8]) -> Vec<Value> {
        let mut out = vec![];
        self.buf.extend_from_slice(bytes);
        while !self.garbage {
            let b = &self.buf;
            if b.len() < 2 {
                break;
            }
            let fin = b[0] & 0x80 != 0;
            let rsv = (b[0] >> 4) & 7;
            let opcode = b[0] & 0x0f;
            let masked = b[1] & 0x80 != 0;
            let len7 = usize::from(b[1] & 0x7f);
            let mut at = 2;
            let (n, minenc) = match len7 {
                126 => {
                    if b.len() < at + 2 {
                        break;
                    }
                    let n = usize::from(u16::from_be_bytes([b[2], b[3]]));
                    at += 2;
                    (n, n >= 126)
                }
                127 => {
                    if b.len() < at + 8 {
                        break;
                    }
                    let mut x = [0u8; 8];
                    x.copy_from_slice(&b[2..10]);
                    at += 8;
                    let n = u64::from_be_bytes(x);
                    if n > (1 << 31) {
                        self.garbage("length", &mut out);
                        break;
                    }
                    (n as usize, n > 0xffff)
                }
                n => (n, true),
            };
            let key = if masked {
                if b.len() < at + 4 {
                    break;
                }
                at += 4;
                Some([b[at - 4], b[at - 3], b[at - 2], b[at - 1]])
            } else {
                None
            };
            if b.len() < at + n {
                break;
            }
            let mut payload = b[at..at + n].to_vec();
            if let Some(key) = key {
                for (i, x) in payload.iter_mut().enumerate() {
                    *x ^= key[i % 4];
                }
            }
            self.buf.drain(..at + n);
            if rsv != 0 {
                self.garbage("rsv", &mut out);
                break;
            }
            match opcode {
                8 | 9 | 10 => {
                    if !fin || n > 125 {
                        self.garbage("control", &mut out);
                        break;
                    }
                    out.push(wire_msg(opcode, &payload, 1, u64::from(masked), minenc));
                }
                1 | 2 => {
                    if self.open.is_some() {
                        self.garbage("nested", &mut out);
                        break;
                    }
                    if fin {
                        out.push(wire_msg(opcode, &payload, 1, u64::from(masked), minenc));
                    } else {
                        self.open = Some(OpenMsg { opcode, payload, frags: 1, masked: u64::from(masked), minenc });
                    }
                }
                0 => match self.open.take() {
                    None => {
                        self.garbage("continuation", &mut out);
                        break;
                    }
                    Some(mut o) => {
                        o.payload.extend_from_slice(&payload);
                        o.frags += 1;
                        o.masked += u64::from(masked);
                        o.minenc &= minenc;
                        if fin {
                            out.push(wire_msg(o.opcode, &o.payload, o.frags, o.masked, o.minenc));
                        } else {
                            self.open = Some(o);
                        }
                    }
                },
                _ => {
                    self.garbage("opcode", &mut out);
                    break;
                }
            }
        }
        out
    }
}

// ------------------------------------------------------------------------------------------------
// one script
// ------------------------------------------------------------------------------------------------
type Ws = WebSocketStream<PipeIo>;

struct Run {
    pipe: Arc<Mutex<Pipe>>,
    ws: Ws,
    server: bool,
    dec: WireDec,
    fed_k: u64,
    sent_k: u64,
    /// the fragmented data message the peer is in the middle of: (payload number, text?, octets so far)
    open: Option<(u64, bool, usize)>,
    nmask: u32,
    waker_count: Arc<CountWaker>,
}

fn u(v: &Value, key: &str) -> usize {
    v[key].as_u64().unwrap_or(0) as usize
}

impl Run {
    fn new(server: bool, rchunk: usize, wchunk: usize) -> Self {
        let pipe = Arc::new(Mutex::new(Pipe {
            rbuf: vec![],
            rpos: 0,
            rend: RdEnd::Open,
            rchunk,
            written: vec![],
            wfail: false,
            wchunk,
            shutdown: false,
        }));
        let wk = Arc::new(CountWaker(AtomicUsize::new(0)));
        let waker = Waker::from(wk.clone());
        let mut cx = Context::from_waker(&waker);
        let role = if server { Role::Server } else { Role::Client };
        let mut fut = Box::pin(WebSocketStream::from_raw_socket(PipeIo(pipe.clone()), role, None));
        let ws = loop {
            if let Poll::Ready(ws) = fut.as_mut().poll(&mut cx) {
                break ws;
            }
        };
        Self { pipe, ws, server, dec: WireDec::default(), fed_k: 0, sent_k: 128, open: None, nmask: 0, waker_count: wk }
    }

    /// the raw peer masks its frames exactly when it is the client, i.e. when the adapter is the server
    fn key(&mut self) -> Option<[u8; 4]> {
        if self.server {
            self.nmask += 1;
            Some((self.nmask.wrapping_mul(0x9e37_79b9) ^ 0x5bd1_e995).to_be_bytes())
        } else {
            None
        }
    }

    fn put(&mut self, fin: bool, rsv: u8, opcode: u8, mask: Option<[u8; 4]>, payload: &[u8]) {
        let mut p = self.pipe.lock().unwrap();
        encode_frame(&mut p.rbuf, fin, rsv, opcode, mask, payload);
    }

    /// executes a feed step; returns the fields added to the logged line
    fn feed(&mut self, s: &Value) -> Value {
        let what = s["what"].as_str().unwrap_or("");
        let len = u(s, "len");
        let mut line = json!({"ev": "feed", "what": what, "len": len, "fin": s["fin"].as_bool().unwrap_or(true),
                              "var": u(s, "var"), "cut": u(s, "cut"), "plen": u(s, "plen"),
                              "why": s["why"].as_str().unwrap_or(""), "rst": s["rst"].as_bool().unwrap_or(false),
                              "k": self.fed_k});
        match what {
            "binary" | "text" => {
                let fin = s["fin"].as_bool().unwrap_or(true);
                let text = what == "text";
                let k = self.fed_k;
                self.fed_k += 1;
                let payload = if text { code_a95(k, 0, len) } else { code_m251(k, 0, len) };
                let key = self.key();
                self.put(fin, 0, if text { 1 } else { 2 }, key, &payload);
                // a new data frame while a fragmented message is open is the peer's protocol violation; the
                // numbering goes on so that the log stays readable
                if !fin && self.open.is_none() {
                    self.open = Some((k, text, len));
                }
            }
            "cont" => {
                let fin = s["fin"].as_bool().unwrap_or(true);
                let (k, text, off) = match self.open {
                    Some(o) => o,
                    None => {
                        let k = self.fed_k;
                        self.fed_k += 1;
                        (k, false, 0)
                    }
                };
                line["k"] = json!(k);
                let payload = if text { code_a95(k, off, len) } else { code_m251(k, off, len) };
                let key = self.key();
                self.put(fin, 0, 0, key, &payload);
                if self.open.is_some() {
                    self.open = if fin { None } else { Some((k, text, off + len)) };
                }
            }
            "ping" | "pong" => {
                let k = self.fed_k;
                self.fed_k += 1;
                let key = self.key();
                self.put(true, 0, if what == "ping" { 9 } else { 10 }, key, &code_m251(k, 0, len));
            }
            "close" => {
                let payload: Vec<u8> = match u(s, "var") {
                    0 => vec![],
                    1 => 1000u16.to_be_bytes().to_vec(),
                    2 => [&1000u16.to_be_bytes()[..], b"bye"].concat(),
                    _ => [&3000u16.to_be_bytes()[..], &[b'x'; 123][..]].concat(),
                };
                let key = self.key();
                self.put(true, 0, 8, key, &payload);
            }
            "frag" => {
                let cut = u(s, "cut").min(len);
                let plen = u(s, "plen");
                let k = self.fed_k;
                self.fed_k += 2;
                let all = code_m251(k, 0, len);
                let key = self.key();
                self.put(false, 0, 2, key, &all[..cut]);
                let key = self.key();
                self.put(true, 0, 9, key, &code_m251(k + 1, 0, plen));
                let key = self.key();
                self.put(true, 0, 0, key, &all[cut..]);
            }
            "bad" => {
                let key = self.key();
                match s["why"].as_str().unwrap_or("") {
                    "rsv" => self.put(true, 4, 2, key, &[1, 2, 3]),
                    "bigctl" => self.put(true, 0, 9, key, &[7u8; 126]),
                    "fragctl" => self.put(false, 0, 9, key, &[7u8; 2]),
                    // masked when it must not be, unmasked when it must be (section 5.1)
                    "mask" => {
                        let wrong = if self.server { None } else { Some([1, 2, 3, 4]) };
                        self.put(true, 0, 2, wrong, &[1, 2, 3]);
                    }
                    _ => self.put(true, 0, 3, key, &[1, 2, 3]),
                }
            }
            "eof" => self.pipe.lock().unwrap().rend = RdEnd::Eof,
            "ioerr" => {
                let kind = if s["rst"].as_bool().unwrap_or(false) {
                    std::io::ErrorKind::ConnectionReset
                } else {
                    std::io::ErrorKind::Other
                };
                self.pipe.lock().unwrap().rend = RdEnd::Err(kind);
            }
            _ => line["what"] = json!("unknown"),
        }
        line
    }

    fn cx_poll<T>(&mut self, mut f: impl FnMut(&mut Ws, &mut Context<'_>) -> Poll<T>) -> (Poll<T>, usize) {
        let waker = Waker::from(self.waker_count.clone());
        let mut cx = Context::from_waker(&waker);
        let mut polls = 0;
        loop {
            let before = self.waker_count.0.load(Ordering::SeqCst);
            let r = f(&mut self.ws, &mut cx);
            polls += 1;
            // Pending with the waker already woken means "poll me again"; anything else is the answer
            if r.is_ready() || polls >= 8 || self.waker_count.0.load(Ordering::SeqCst) == before {
                return (r, polls);
            }
        }
    }

    fn next(&mut self) -> Value {
        use penguin_mux::ws::WebSocket as W;
        let (r, polls) = self.cx_poll(|ws, cx| W::poll_next_unpin(ws, cx));
        let mut line = json!({"ev": "next", "polls": polls,
                              "msg": {"kind": "", "len": 0, "first": -1, "r251": false, "r95": false}});
        match r {
            Poll::Pending => line["res"] = json!("pending"),
            Poll::Ready(None) => line["res"] = json!("none"),
            Poll::Ready(Some(Err(e))) => {
                line["res"] = json!("err");
                line["text"] = json!(e.to_string());
            }
            Poll::Ready(Some(Ok(m))) => {
                line["res"] = json!("msg");
                line["msg"] = match m {
                    Message::Binary(d) => {
                        let (first, r251, r95) = projection(&d);
                        json!({"kind": "binary", "len": d.len(), "first": first, "r251": r251, "r95": r95})
                    }
                    Message::Ping => json!({"kind": "ping", "len": 0, "first": -1, "r251": true, "r95": true}),
                    Message::Pong => json!({"kind": "pong", "len": 0, "first": -1, "r251": true, "r95": true}),
                    Message::Close => json!({"kind": "close", "len": 0, "first": -1, "r251": true, "r95": true}),
                };
            }
        }
        line
    }

    fn send(&mut self, s: &Value) -> Value {
        use penguin_mux::ws::WebSocket as W;
        let kind = s["kind"].as_str().unwrap_or("");
        let len = u(s, "len");
        let mut line = json!({"ev": "send", "kind": kind, "len": 0, "k": 0, "ready": "", "res": ""});
        let item = match kind {
            "binary" => {
                let k = self.sent_k;
                self.sent_k += 1;
                line["len"] = json!(len);
                line["k"] = json!(k);
                Message::Binary(Bytes::from(code_m251(k, 0, len)))
            }
            "ping" => Message::Ping,
            "pong" => Message::Pong,
            _ => Message::Close,
        };
        let (r, polls) = self.cx_poll(|ws, cx| W::poll_ready_unpin(ws, cx));
        line["polls"] = json!(polls);
        match r {
            Poll::Pending => {
                line["ready"] = json!("pending");
                line["res"] = json!("pending");
            }
            Poll::Ready(Err(e)) => {
                line["ready"] = json!("err");
                line["res"] = json!("err");
                line["text"] = json!(e.to_string());
            }
            Poll::Ready(Ok(())) => {
                line["ready"] = json!("ok");
                match W::start_send_unpin(&mut self.ws, item) {
                    Ok(()) => line["res"] = json!("ok"),
                    Err(e) => {
                        line["res"] = json!("err");
                        line["text"] = json!(e.to_string());
                    }
                }
            }
        }
        line
    }

    fn flush_or_close(&mut self, close: bool) -> Value {
        use penguin_mux::ws::WebSocket as W;
        let (r, polls) = if close {
            self.cx_poll(|ws, cx| W::poll_close_unpin(ws, cx))
        } else {
            self.cx_poll(|ws, cx| W::poll_flush_unpin(ws, cx))
        };
        let mut line = json!({"ev": if close { "close" } else { "flush" }, "polls": polls});
        match r {
            Poll::Pending => line["res"] = json!("pending"),
            Poll::Ready(Ok(())) => line["res"] = json!("ok"),
            Poll::Ready(Err(e)) => {
                line["res"] = json!("err");
                line["text"] = json!(e.to_string());
            }
        }
        line
    }

    fn step(&mut self, s: &Value) -> Value {
        match s["op"].as_str().unwrap_or("") {
            "feed" => self.feed(s),
            "next" => self.next(),
            "send" => self.send(s),
            "flush" => self.flush_or_close(false),
            "close" => self.flush_or_close(true),
            "wfail" => {
                self.pipe.lock().unwrap().wfail = true;
                json!({"ev": "wfail"})
            }
            _ => json!({"ev": "unknown"}),
        }
    }
}

fn panic_line(s: &Value) -> Value {
    // the shape of the line the step would have produced, with the result `panic`
    let empty = json!({"kind": "", "len": 0, "first": -1, "r251": false, "r95": false});
    match s["op"].as_str().unwrap_or("") {
        "next" => json!({"ev": "next", "polls": 0, "res": "panic", "msg": empty}),
        "send" => json!({"ev": "send", "kind": s["kind"], "len": u(s, "len"), "k": 0, "ready": "panic", "res": "panic", "polls": 0}),
        "flush" => json!({"ev": "flush", "polls": 0, "res": "panic"}),
        "close" => json!({"ev": "close", "polls": 0, "res": "panic"}),
        _ => json!({"ev": "harness_panic", "res": "panic"}),
    }
}

fn run_script(c: &Value, id: u64, default_src: &str, out: &mut impl Write) {
    let server = c["role"].as_str().unwrap_or("server") == "server";
    let rchunk = u(c, "rchunk");
    let wchunk = u(c, "wchunk");
    let src = c["src"].as_str().unwrap_or(default_src);
    writeln!(out, "{}", json!({"ev": "reset", "script": id, "role": if server { "server" } else { "client" },
                               "rchunk": rchunk, "wchunk": wchunk, "src": src})).unwrap();
    let mut run = Run::new(server, rchunk, wchunk);
    let empty = vec![];
    for s in c["steps"].as_array().unwrap_or(&empty) {
        let r = catch_unwind(AssertUnwindSafe(|| run.step(s)));
        let panicked = r.is_err();
        let mut line = r.unwrap_or_else(|_| panic_line(s));
        // whatever the adapter wrote during this step, decoded
        let bytes = std::mem::take(&mut run.pipe.lock().unwrap().written);
        let nbytes = bytes.len();
        let wire = run.dec.push(&bytes);
        line["wire"] = Value::Array(wire);
        line["wbytes"] = json!(nbytes);
        line["residue"] = json!(run.dec.residue());
        line["shutdown"] = json!(run.pipe.lock().unwrap().shutdown);
        writeln!(out, "{line}").unwrap();
        if panicked {
            // the state of the adapter is unknown after a panic: the script ends here
            break;
        }
    }
}

// ------------------------------------------------------------------------------------------------
// random scripts
// ------------------------------------------------------------------------------------------------
const LENS: [usize; 10] = [0, 1, 2, 125, 126, 127, 65535, 65536, 65537, 140_000];

fn rlen(rng: &mut SmallRng) -> usize {
    match rng.random_range(0..10) {
        0..=3 => rng.random_range(0..=40),
        4..=7 => LENS[rng.random_range(0..LENS.len())],
        8 => rng.random_range(100..=300),
        _ => rng.random_range(0..=70_000),
    }
}

fn rctl(rng: &mut SmallRng) -> usize {
    match rng.random_range(0..4) {
        0 => 0,
        1 => 125,
        _ => rng.random_range(0..=125),
    }
}

fn random_script(rng: &mut SmallRng) -> Vec<Value> {
    let n = rng.random_range(6..=40);
    let mut steps = vec![];
    // the raw peer obeys the protocol except where a `bad` step says otherwise; it tracks whether it is in the
    // middle of a fragmented message, and nothing is fed after the read side has ended
    let mut open = false;
    let mut ended = false;
    let quiet = rng.random_range(0..4) > 0; // most scripts have no fault injected
    for _ in 0..n {
        let s = match rng.random_range(0..100) {
            0..=39 if !ended => match rng.random_range(0..100) {
                0..=24 if !open => json!({"op": "feed", "what": "binary", "len": rlen(rng), "fin": true}),
                25..=34 if !open => json!({"op": "feed", "what": "text", "len": rlen(rng), "fin": true}),
                35..=44 if !open => {
                    open = true;
                    let what = if rng.random_range(0..3) == 0 { "text" } else { "binary" };
                    json!({"op": "feed", "what": what, "len": rlen(rng), "fin": false})
                }
                0..=44 => {
                    let fin = rng.random_range(0..2) == 0;
                    open = !fin;
                    json!({"op": "feed", "what": "cont", "len": rlen(rng), "fin": fin})
                }
                45..=59 => json!({"op": "feed", "what": "ping", "len": rctl(rng)}),
                60..=69 => json!({"op": "feed", "what": "pong", "len": rctl(rng)}),
                70..=79 if !open => {
                    let len = rlen(rng);
                    let cut = if len == 0 { 0 } else { rng.random_range(0..=len) };
                    json!({"op": "feed", "what": "frag", "len": len, "cut": cut, "plen": rctl(rng)})
                }
                80..=87 => json!({"op": "feed", "what": "close", "var": rng.random_range(0..4)}),
                88..=92 if !quiet => {
                    ended = true;
                    json!({"op": "feed", "what": "eof"})
                }
                93..=95 if !quiet => {
                    ended = true;
                    json!({"op": "feed", "what": "ioerr", "rst": rng.random_range(0..2) == 0})
                }
                96..=99 if !quiet => {
                    let why = ["opcode", "rsv", "bigctl", "fragctl", "mask"][rng.random_range(0..5)];
                    json!({"op": "feed", "what": "bad", "why": why})
                }
                _ => json!({"op": "next"}),
            },
            0..=64 => json!({"op": "next"}),
            65..=79 => json!({"op": "send", "kind": "binary", "len": rlen(rng)}),
            80..=83 => json!({"op": "send", "kind": "ping"}),
            84..=87 => json!({"op": "send", "kind": "pong"}),
            88..=89 => json!({"op": "send", "kind": "close"}),
            90..=96 => json!({"op": "flush"}),
            97..=98 => json!({"op": "close"}),
            _ if !quiet => json!({"op": "wfail"}),
            _ => json!({"op": "flush"}),
        };
        steps.push(s);
    }
    steps
}

fn main() {
    std::panic::set_hook(Box::new(|_| {}));
    let args: Vec<String> = std::env::args().collect();
    match args.get(1).map(String::as_str) {
        Some("cases") if args.len() == 4 => {
            let inp = BufReader::new(std::fs::File::open(&args[2]).expect("open cases"));
            let mut out = BufWriter::new(std::fs::File::create(&args[3]).expect("create out"));
            let mut id = 0;
            for line in inp.lines() {
                let line = line.expect("read");
                if line.trim().is_empty() {
                    continue;
                }
                let c: Value = serde_json::from_str(&line).expect("case json");
                id += 1;
                run_script(&c, id, "tlc", &mut out);
            }
            out.flush().unwrap();
        }
        Some("random") if args.len() == 5 => {
            let seed: u64 = args[2].parse().expect("seed");
            let count: u64 = args[3].parse().expect("count");
            let mut rng = SmallRng::seed_from_u64(seed);
            let mut out = BufWriter::new(std::fs::File::create(&args[4]).expect("create out"));
            // octets per read / write of the transport (0 = no limit); tiny chunks only with small payloads (the
            // transport under test copies its buffers on every partial read / write)
            let small = [0usize, 0, 1, 7, 4096];
            let large = [0usize, 0, 1000, 4096];
            for i in 0..count {
                let steps = random_script(&mut rng);
                let big = steps.iter().any(|s| s["len"].as_u64().unwrap_or(0) > 2000);
                let chunks: &[usize] = if big { &large } else { &small };
                let rchunk = chunks[rng.random_range(0..chunks.len())];
                let wchunk = chunks[rng.random_range(0..chunks.len())];
                for role in ["server", "client"] {
                    let c = json!({"role": role, "steps": steps, "rchunk": rchunk, "wchunk": wchunk});
                    run_script(&c, 2 * i + u64::from(role == "client") + 1, "random", &mut out);
                }
            }
            out.flush().unwrap();
        }
        _ => {
            eprintln!("usage: ws_vec cases <cases.ndjson> <out.ndjson> | random <seed> <count> <out.ndjson>");
            std::process::exit(2);
        }
    }
}
