------------------------------ MODULE MC_Frame ------------------------------
(***************************************************************************)
(* Enumeration model of property C09.  Every reachable state is one CASE:  *)
(*   k = "enc": a frame f over the boundary domains.  TLC checks           *)
(*              Decode(Encode(f)) = f and prints f with Encode(f).         *)
(*   k = "dec": a byte string b.  TLC evaluates Decode(b), checks that the *)
(*              result is sound (DecodeSound) and prints b with it.        *)
(* The root is the empty byte string.  From a string shorter than MaxLen   *)
(* every letter of Alphabet is appended (ALL strings up to MaxLen over the *)
(* alphabet); from the root TLC also steps to every frame of EncFrames and *)
(* to every string of Targeted (longer strings aimed at the length and     *)
(* type checks); behind the header <<fb,1,2,3,4>> of every opcode ALL      *)
(* strings up to TailLen over TailAlphabet are appended.  The printed cases are replayed on the real codec by      *)
(* harness/src/bin/frame_vec.rs and its log is validated by FrameTrace.    *)
(***************************************************************************)
EXTENDS Frame, Json, TLC, FiniteSets

CONSTANTS Alphabet,     \* letters of the exhaustive part
          MaxLen,       \* all strings over Alphabet up to this length
          TailAlphabet, \* letters of the exhaustive tails
          TailLen,      \* all tails over TailAlphabet up to this length, after each header of TailFirst
          Wide          \* FALSE: quick domains, TRUE: thorough domains

VARIABLE c

(* ------------------------------ domains ------------------------------ *)
U32Corners ==
  {<<0, 0, 0, 0>>, <<0, 0, 0, 1>>, <<0, 0, 0, 255>>, <<0, 0, 1, 0>>, <<0, 0, 255, 255>>, <<0, 1, 0, 0>>,
   <<127, 255, 255, 255>>, <<128, 0, 0, 0>>, <<255, 255, 255, 255>>, <<1, 2, 3, 4>>}
U32Few == {<<0, 0, 0, 0>>, <<0, 0, 1, 0>>, <<255, 255, 255, 255>>, <<1, 2, 3, 4>>}
Ids == U32Corners
Windows == IF Wide THEN U32Corners ELSE U32Few
Ports == {0, 1, 255, 256, 65535, 4660}
PortsFew == IF Wide THEN Ports ELSE {0, 256, 65535, 4660}

(* hosts of length 0, 1, 2, 254, 255: a repeated octet after a distinct first octet (so that a
   reversed or shifted copy is noticed); all-zero and all-0xFF hosts as well *)
Hosts ==
  {<<>>, <<104>>, <<104, 46>>, <<1>> \o Rep(2, 253), <<0>> \o Rep(255, 254), Rep(0, 255), Rep(255, 255), Rep(97, 254)}
HostsFew == IF Wide THEN Hosts ELSE {<<>>, <<104>>, <<104, 46>>, <<1>> \o Rep(2, 253), <<0>> \o Rep(255, 254)}

(* payloads of length 0..5 and a few long ones *)
Payloads ==
  {<<>>, <<0>>, <<1, 2>>, <<255, 0, 255>>, <<1, 2, 3, 4>>, <<5, 4, 3, 2, 1>>}
LongPayloads == {Rep(0, 6), <<7>> \o Rep(170, 1399), Rep(255, 2000)}

EncFrames ==
       {Connect(i, w, p, h) : i \in Ids, w \in Windows, p \in PortsFew, h \in HostsFew}
  \cup {Acknowledge(i, w) : i \in Ids, w \in U32Corners}
  \cup {Reset(i) : i \in Ids}
  \cup {Finish(i) : i \in Ids}
  \cup {Push(i, d) : i \in Ids, d \in Payloads \cup LongPayloads}
  \cup {Bind(i, t, p, h) : i \in (IF Wide THEN Ids ELSE U32Few), t \in BindTypes, p \in Ports, h \in Hosts}
  \cup {Datagram(i, p, h, d) : i \in (IF Wide THEN Ids ELSE U32Few), p \in PortsFew, h \in Hosts, d \in Payloads}
  \cup {Datagram(<<1, 2, 3, 4>>, 4660, h, d) : h \in Hosts, d \in LongPayloads}

(* ---------------------- targeted byte strings ---------------------- *)
Filler(k) == [i \in 1 .. k |-> 16 + i]
Hdr(fb) == <<fb, 1, 2, 3, 4>>

(* every value of the first octet; truncated headers *)
ShortHeaders == {SubSeq(Hdr(fb), 1, j) : fb \in 0 .. 255, j \in 1 .. 5}

(* every value of the first octet x critical sixth octet (bind_type / host_len / first payload octet)
   x number of octets after it *)
Sixth == IF Wide THEN {0, 1, 2, 3, 4, 5, 6, 7, 8, 127, 128, 254, 255} ELSE {0, 1, 2, 3, 4, 5, 7, 255}
AfterSixth == IF Wide THEN 0 .. 12 ELSE 0 .. 8
Structured == {Hdr(fb) \o <<x>> \o Filler(k) : fb \in 0 .. 255, x \in Sixth, k \in AfterSixth}

(* datagrams around host_len = what is left: header, host_len, port, then r octets *)
DgRest(hl, r) == [i \in 1 .. r |-> IF i <= hl THEN 104 ELSE 100]
DgLeft(hl) == {x \in {hl - 2, hl - 1, hl, hl + 1, hl + 2, hl + 3, hl + 4, 0, 1, 256} : x >= 0}
DgBoundary ==
  UNION {{<<fb, 0, 0, 0, 9, hl, 18, 52>> \o DgRest(hl, r) : fb \in {118, 6}, r \in DgLeft(hl)}
         : hl \in {0, 1, 2, 3, 4, 5, 127, 128, 253, 254, 255}}

(* every prefix of one valid encoding per opcode (all minimum-length boundaries), in both version forms,
   and the same encodings followed by surplus octets *)
Typical ==
  {Connect(<<0, 0, 4, 210>>, <<0, 0, 2, 0>>, 5678, <<1, 2, 3>>), Acknowledge(<<0, 0, 22, 46>>, <<0, 0, 0, 128>>),
   Reset(<<0, 0, 5, 11>>), Finish(<<0, 0, 83, 76>>), Push(<<18, 91, 151, 187>>, <<1, 2, 3, 4>>),
   Bind(<<0, 0, 164, 148>>, 3, 1234, <<1, 2, 3, 4>>), Bind(<<2, 130, 234, 95>>, 1, 1234, <<>>),
   Datagram(<<0, 0, 8, 86>>, 1234, <<1, 2, 3, 4>>, <<1, 2, 3, 4>>), Datagram(<<0, 0, 8, 86>>, 1234, <<>>, <<>>),
   Datagram(<<0, 0, 8, 86>>, 53, <<49>>, <<9>>)}
Lenient(e) == <<e[1] % 16>> \o Tail(e)
Prefixes == UNION {{SubSeq(e, 1, j) : j \in 0 .. Len(e)} \cup {SubSeq(Lenient(e), 1, j) : j \in 1 .. Len(e)}
                   : e \in {Encode(f) : f \in Typical}}
Surplus == {Encode(f) \o s : f \in Typical, s \in {<<0>>, <<255, 255>>, Filler(9)}}

(* the zero-filled version form of boundary frames, and unknown versions of them *)
LenientFrames ==
  {<<v * 16 + (e[1] % 16)>> \o Tail(e) :
     v \in {0, 1, 6, 8, 15},
     e \in {Encode(f) : f \in {g \in EncFrames : g.id = <<1, 2, 3, 4>> /\ g.n \in {Zero32, <<1, 2, 3, 4>>}
                                                  /\ g.port \in {0, 4660} /\ Len(g.data) <= 2000}}}

Targeted == ShortHeaders \cup Structured \cup DgBoundary \cup Prefixes \cup Surplus \cup LenientFrames

(* ------------------------------ behaviour ------------------------------ *)
Dec(b) == [k |-> "dec", b |-> b]
Enc(f) == [k |-> "enc", f |-> f]

Init == c = Dec(<<>>)

Extend == /\ c.k = "dec" /\ Len(c.b) < MaxLen
          /\ \A i \in 1 .. Len(c.b) : c.b[i] \in Alphabet     \* only the exhaustive part grows
          /\ \E a \in Alphabet : c' = Dec(Append(c.b, a))
(* ALL field strings up to TailLen over TailAlphabet behind a valid header of every opcode (and of the
   zero-filled Bind and Datagram): the per-opcode length, bind_type and host_len checks *)
TailFirst == {112, 113, 114, 115, 116, 117, 118, 5, 6}
ExtendTail == /\ c.k = "dec" /\ Len(c.b) >= 5 /\ Len(c.b) < 5 + TailLen
              /\ c.b[1] \in TailFirst /\ SubSeq(c.b, 1, 5) = Hdr(c.b[1])
              /\ \A i \in 6 .. Len(c.b) : c.b[i] \in TailAlphabet
              /\ \E a \in TailAlphabet : c' = Dec(Append(c.b, a))
Frames == c = Dec(<<>>) /\ \E f \in EncFrames : c' = Enc(f)
Target == c = Dec(<<>>) /\ \E b \in Targeted : c' = Dec(b)

Next == Extend \/ ExtendTail \/ Frames \/ Target
Spec == Init /\ [][Next]_c

(* ------------------------------ properties ------------------------------ *)
Correct ==
  IF c.k = "enc"
  THEN IsFrame(c.f) /\ IsBytes(Encode(c.f)) /\ RoundTrip(c.f) /\ DecodeSound(Encode(c.f))
  ELSE IsBytes(c.b) /\ DecodeSound(c.b)

(* ------------------------------ output ------------------------------ *)
JF(f) == [op |-> f.op, id |-> f.id, n |-> f.n, port |-> f.port, bt |-> f.bt,
          host |-> Compress(f.host), data |-> Compress(f.data)]
CaseOf(x) ==
  IF x.k = "enc"
  THEN [k |-> "enc", f |-> JF(x.f), bytes |-> Compress(Encode(x.f))]
  ELSE LET d == Decode(x.b) IN
       IF d.ok THEN [k |-> "dec", b |-> Compress(x.b), ok |-> TRUE, f |-> JF(d.frame)]
               ELSE [k |-> "dec", b |-> Compress(x.b), ok |-> FALSE]
Emit == PrintT(<<"CASE", ToJson(CaseOf(c))>>)
=============================================================================
