SPECIFICATION Spec
CONSTANTS
  AckMode = "any"
  ThrMode = "fixed"
  EmptyMode = "fixed"
INVARIANTS NoViolation AckSound QueueBound InitialCredit DoneResolved
CONSTRAINT Track
POSTCONDITION Accepted
CHECK_DEADLOCK FALSE
