\* WsAdapter thorough: the laws of the contract on every behaviour of up to Depth steps (see MC_WsAdapter.tla)
SPECIFICATION SpecLaws
CONSTANTS
  EofNoneOk = TRUE
  Depth = 5
  FeedData <- FeedDataS
  FeedCtl <- FeedCtlS
  CloseVars = {0}
  Frags <- NoFrags
  Bads = {"opcode"}
  Ends = {"eof", "ioerr"}
  SendLens = {1}
  SendKinds = {"pong", "close"}
  Wfail = TRUE
INVARIANTS TypeOK DelivLaw WireLaw FlushLaw NoHang
PROPERTY Terminal
CHECK_DEADLOCK FALSE
