SPECIFICATION Spec
CONSTANTS
  AckMode = "shaped"
  ThrMode = "fixed"
  EmptyMode = "fixed"
  RstMode = "fixed"
  CfgSet <- TinyCfg
  SameCfg = TRUE
  Openers = {"A"}
  MaxOpens = 1
  Ids = {1}
  Hosts = {"h0"}
  MaxWrites = 1
  Writers = {"A", "B"}
  Lens = {1}
  ReadMax = {4}
  Closers = {}
  MuxDroppers = {}
  Cancellers = {}
  DgSenders = {}
  MaxDgrams = 0
  Binders = {}
  MaxBinds = 0
  Faults = {}
  AdvMsgs <- AdvSet
  MaxAdv = 3
  Bridgers = {}
  SplitFlush = FALSE
  MaxNow = 0
  MaxHandles = 2
  MaxCtr = 1
VIEW View
CONSTRAINT Bound
INVARIANTS NoViolation TypeOK AckSound QueueBound InitialCredit ExactlyOne TargetCarried BoundedRetry Released DoneResolved NoOrphanWriter
CHECK_DEADLOCK FALSE
