\* C19 part A trace validation (collecting); a panic where the next delay is not representable: allow
SPECIFICATION Spec
CONSTANTS
  Collect = TRUE
  OverflowMode = "allow"
CONSTRAINT Track
POSTCONDITION Accepted
CHECK_DEADLOCK FALSE
