SPECIFICATION Spec
CONSTANTS
  Is = {0, 1, 2, 3}
  Ts = {0, 1, 2, 3, 4, 5}
  MaxD = 5
  Horizon = 14
INVARIANTS InvPing InvDisabled InvNotEarly InvNotLate InvNoFalseOutsideF12 InvClamp
CHECK_DEADLOCK FALSE
