------------------------------ MODULE MC_Socks ------------------------------
(***************************************************************************)
(* Bounded-exhaustive case enumeration for property C18.                   *)
(*                                                                         *)
(* A state is one case `c`.  Initial states: every seed message (built     *)
(* with the builders of Socks.tla from boundary field values, followed by  *)
(* a trailer that must not be consumed) and every argument tuple of the    *)
(* writers.  The only action removes the last octet of a parse case, so    *)
(* the reachable states are the seeds and EVERY truncation of every seed   *)
(* (shared prefixes coincide as states).                                   *)
(*                                                                         *)
(* On every distinct state TLC                                             *)
(*   - checks the laws of the grammar (PrefixLaw, ErrLaw, round trips      *)
(*     between builders and parsers, the UDP header theorem) and           *)
(*   - prints one line  <<"CASE", json>>  with the input and the result    *)
(*     the grammar assigns to it (invariant Emit).                         *)
(***************************************************************************)
EXTENDS Socks, TLC, Json

CONSTANTS
  CmdPort,      \* set of <<command, port>> pairs
  DomShort,     \* domain-name lengths combined with every fill octet and command
  DomLong,      \* domain-name lengths used with one fill octet and one command
  Fill5,        \* fill octets of SOCKS5 domain names (NUL allowed: the name is length-prefixed)
  UidShort, UidLong,   \* SOCKS4 user-id lengths
  BadAtyp, BadVer, BadRsv,
  Ports, PayLong, Reps

VARIABLE c

CP0 == <<1, 80>>
\* values of CmdPort (a configuration file cannot write tuples): commands 1, 2, 3 and unknown ones
CmdPortQ == { <<1, 80>>, <<2, 0>>, <<3, 65535>>, <<0, 4660>>, <<255, 256>> }
CmdPortT == CmdPortQ \cup { <<4, 1>>, <<128, 255>>, <<1, 65280>> }
Codes == 0 .. 255                       \* every reply / method code
Payloads == { <<>>, <<0>>, <<1, 2, 3>> } \cup { Rep(255, n) : n \in PayLong }
IP4s == { <<0, 0, 0, 0>>, <<255, 255, 255, 255>>, <<127, 0, 0, 1>>, <<1, 2, 3, 4>> }
IP6s == { Rep(0, 16), Rep(255, 16), [i \in 1 .. 16 |-> IF i = 16 THEN 1 ELSE 0], [i \in 1 .. 16 |-> i],
          <<0, 0, 0, 0, 0, 0, 0, 0, 0, 0, 255, 255, 1, 2, 3, 4>>,
          <<32, 1, 13, 184, 0, 0, 0, 0, 0, 0, 0, 0, 0, 0, 0, 1>> }
A4 == <<1, 2, 3, 4>>
A6 == [i \in 1 .. 16 |-> i]
Trailers == { <<0, 5, 1>>, <<7, 0>> }
Ext(S) == { m \o t : m \in S, t \in Trailers }

(* ---------------- well-formed seeds (fields kept beside the octets for the round-trip law) ------------- *)
F5(cp, t, a) == [fn |-> "v5_request", cmd |-> cp[1], port |-> cp[2], atyp |-> t, addr |-> a,
                 msg |-> S5Request(cp[1], t, a, cp[2])]
Wf5 ==
       { F5(CP0, 1, a) : a \in IP4s } \cup { F5(cp, 1, A4) : cp \in CmdPort }
  \cup { F5(CP0, 4, a) : a \in IP6s } \cup { F5(cp, 4, A6) : cp \in CmdPort }
  \cup { F5(cp, 3, Rep(f, n)) : cp \in CmdPort, f \in Fill5, n \in DomShort }
  \cup { F5(CP0, 3, Rep(97, n)) : n \in DomLong }

F4(cp, ip, ul) == [fn |-> "v4_request", cmd |-> cp[1], port |-> cp[2], atyp |-> 1, addr |-> ip,
                   msg |-> S4Request(cp[1], cp[2], ip, Rep(117, ul))]
F4a(cp, x, ul, dl) == [fn |-> "v4_request", cmd |-> cp[1], port |-> cp[2], atyp |-> 3, addr |-> Rep(100, dl),
                       msg |-> S4aRequest(cp[1], cp[2], x, Rep(117, ul), Rep(100, dl))]
IP4nz == { a \in IP4s : a[1] # 0 }
Wf4 ==
       { F4(CP0, A4, n) : n \in UidShort \cup UidLong }
  \cup { F4(CP0, ip, n) : ip \in IP4nz, n \in UidShort }
  \cup { F4(cp, A4, 1) : cp \in CmdPort }
  \cup { F4a(CP0, 1, 1, n) : n \in DomShort \cup DomLong }
  \cup { F4a(CP0, x, u, 2) : x \in {1, 255}, u \in UidShort \cup UidLong }
  \cup { F4a(cp, 255, 0, 1) : cp \in CmdPort }

FM(n) == [fn |-> "v5_methods", methods |-> [i \in 1 .. n |-> (i * 7) % 256], msg |-> S5MethodSel([i \in 1 .. n |-> (i * 7) % 256])]
WfM == { FM(n) : n \in {1, 2, 3, 255} }

FU(t, a, p, d) == [fn |-> "udp_parse", atyp |-> t, addr |-> a, port |-> p, data |-> d, msg |-> UdpHeader(t, a, p, d)]
SmallPay == { d \in Payloads : Len(d) <= 3 }
WfU ==
       { FU(1, a, 80, <<1, 2, 3>>) : a \in IP4s } \cup { FU(1, A4, p, d) : p \in Ports, d \in SmallPay }
  \cup { FU(4, a, 80, <<1, 2, 3>>) : a \in IP6s } \cup { FU(4, A6, p, d) : p \in Ports, d \in SmallPay }
  \cup { FU(3, Rep(f, n), 80, d) : f \in Fill5, n \in DomShort, d \in SmallPay }
  \cup { FU(3, Rep(97, n), 443, <<9>>) : n \in DomLong }

(* ---------------- seeds outside the grammar or outside its defined part ----------------------------- *)
Tail10 == <<1, 2, 3, 4, 0, 80>>
Odd5 ==    { <<5, 1, 0, t>> \o Tail10 : t \in BadAtyp }                 \* unknown address types
      \cup { <<v, 1, 0, 1>> \o Tail10 : v \in BadVer }                  \* unknown versions
      \cup { <<5, 1, r, t>> \o Tail10 : r \in BadRsv, t \in {1, 9} }    \* reserved octet not zero
OddM == { <<5, 0>> }                                                    \* NMETHODS = 0
Odd4 == { <<4, 1, 0, 80>> \o ip \o <<117, 0, 100, 100, 0>> :           \* DSTIP the 4a note says nothing about
            ip \in { <<0, 0, 0, 0>>, <<0, 1, 2, 3>>, <<0, 0, 1, 0>>, <<0, 1, 0, 5>> } }
OddU ==    { <<0, 0, f, 1>> \o Tail10 \o <<1, 2, 3>> : f \in {1, 128, 255} }      \* fragments
      \cup { <<0, 0, 0, t>> \o Tail10 \o <<1, 2, 3>> : t \in BadAtyp }
      \cup { <<r[1], r[2], 0, 1>> \o Tail10 \o <<1, 2, 3>> : r \in { <<0, 1>>, <<1, 0>>, <<255, 255>> } }

PCase(fn, b) == [ev |-> "parse", fn |-> fn, input |-> b]
ParseSeeds ==
       { PCase("v5_request", b) : b \in Ext({ f.msg : f \in Wf5 } \cup Odd5) }
  \cup { PCase("v4_request", b) : b \in Ext({ f.msg : f \in Wf4 } \cup Odd4) }
  \cup { PCase("v5_methods", b) : b \in Ext({ f.msg : f \in WfM } \cup OddM) }
  \cup { PCase("udp_parse", b) : b \in { f.msg : f \in WfU } \cup OddU }

(* ---------------- argument tuples of the writers ------------------------------------------------------ *)
Addrs == { <<1, a>> : a \in IP4s } \cup { <<4, a>> : a \in IP6s }
BuildSeeds ==
       { [ev |-> "build", fn |-> "udp_relay_response", atyp |-> x[1], addr |-> x[2], port |-> p, payload |-> d] :
            x \in Addrs, p \in Ports, d \in Payloads }
  \cup { [ev |-> "build", fn |-> "v5_reply", rep |-> r, atyp |-> x[1], addr |-> x[2], port |-> 80] : r \in Reps, x \in Addrs }
  \cup { [ev |-> "build", fn |-> "v5_reply", rep |-> 0, atyp |-> x[1], addr |-> x[2], port |-> p] : x \in Addrs, p \in Ports }
  \cup { [ev |-> "build", fn |-> "v5_reply_unspec", rep |-> r] : r \in Codes }
  \cup { [ev |-> "build", fn |-> "v5_method", method |-> m] : m \in Codes }
  \cup { [ev |-> "build", fn |-> "v4_reply", rep |-> r] : r \in Codes }

(* ---------------- the state machine ----------------------------------------------------------------- *)
\* octets the caller has consumed before the reader under test is called (the version octet it dispatched on)
Skip(fn) == IF fn \in {"v5_methods", "v4_request"} THEN 1 ELSE 0

Init == c \in ParseSeeds \cup BuildSeeds
Truncate == /\ c.ev = "parse"
            /\ Len(c.input) > Skip(c.fn)
            /\ c' = [c EXCEPT !.input = Take(@, Len(@) - 1)]
Next == Truncate
Spec == Init /\ [][Next]_c

ParseFn(fn, b) ==
  CASE fn = "v5_request" -> ParseS5Request(b)
    [] fn = "v5_methods" -> ParseS5Methods(b)
    [] fn = "v4_request" -> ParseS4Request(b)
    [] fn = "udp_parse"  -> ParseUdp(b)

Expected(k) ==
  IF k.ev = "parse" THEN ParseFn(k.fn, k.input)
  ELSE CASE k.fn = "udp_relay_response" -> [out |-> UdpHeader(k.atyp, k.addr, k.port, k.payload)]
         [] k.fn = "v5_reply"        -> [out |-> S5Reply(k.rep, k.atyp, k.addr, k.port)]
         [] k.fn = "v5_reply_unspec" -> [out |-> S5Reply(k.rep, 1, <<0, 0, 0, 0>>, 0)]
         [] k.fn = "v5_method"       -> [out |-> S5MethodReply(k.method)]
         [] k.fn = "v4_reply"        -> [out |-> S4Reply(k.rep, 0, <<0, 0, 0, 0>>)]

(* ---------------- what TLC checks on every case ------------------------------------------------------ *)
TypeOK ==
  /\ c.ev \in {"parse", "build"}
  /\ c.ev = "parse" => /\ IsBytes(c.input)
                       /\ Expected(c).st \in {"ok", "needmore", "err", "undef"}
                       /\ Expected(c).consumed \in 0 .. Len(c.input)
                       /\ IsBytes(Expected(c).addr)
                       /\ c.fn = "udp_parse" => Expected(c).st # "needmore"
  /\ c.ev = "build" => IsBytes(Expected(c).out)

Laws ==
  c.ev = "parse" =>
    CASE c.fn = "v5_request" -> PrefixLaw(ParseS5Request, c.input) /\ ErrLaw(ParseS5Request, c.input)
      [] c.fn = "v5_methods" -> PrefixLaw(ParseS5Methods, c.input) /\ ErrLaw(ParseS5Methods, c.input)
      [] c.fn = "v4_request" -> PrefixLaw(ParseS4Request, c.input) /\ ErrLaw(ParseS4Request, c.input)
      [] OTHER -> TRUE

UdpTheorem ==
  (c.ev = "build" /\ c.fn = "udp_relay_response") => UdpRoundTrip(c.atyp, c.addr, c.port, c.payload)

Emit == PrintT(<<"CASE", ToJson([case |-> c, exp |-> Expected(c)])>>)

(* ---------------- laws over the seed fields, evaluated once ------------------------------------------ *)
Same(e, f, n) == /\ e.st = "ok" /\ e.cmd = f.cmd /\ e.atyp = f.atyp /\ e.addr = f.addr /\ e.port = f.port
                 /\ e.consumed = n
ASSUME RoundTrip5 == \A f \in Wf5 : \A t \in Trailers \cup {<<>>} : Same(ParseS5Request(f.msg \o t), f, Len(f.msg))
ASSUME RoundTrip4 == \A f \in Wf4 : \A t \in Trailers \cup {<<>>} : Same(ParseS4Request(f.msg \o t), f, Len(f.msg))
ASSUME RoundTripM == \A f \in WfM : \A t \in Trailers \cup {<<>>} :
                        LET e == ParseS5Methods(f.msg \o t) IN e.st = "ok" /\ e.data = f.methods /\ e.consumed = Len(f.msg)
ASSUME RoundTripU == \A f \in WfU : UdpRoundTrip(f.atyp, f.addr, f.port, f.data)
\* the theorem of the task over the whole boundary domain, domain names included
ASSUME UdpHeaderTheorem ==
  \A x \in Addrs \cup { <<3, Rep(f, n)>> : f \in Fill5, n \in DomShort \cup DomLong } :
    \A p \in Ports : \A d \in Payloads : UdpRoundTrip(x[1], x[2], p, d)
\* no octet but the right one in the version field is accepted
ASSUME Versions ==
  \A v \in Byte : /\ v # 5 => ParseS5Request(<<v, 1, 0, 1>> \o Tail10).st = "err" /\ ParseS5Methods(<<v, 1, 0>>).st = "err"
                  /\ v # 4 => ParseS4Request(<<v, 1, 0, 80, 1, 2, 3, 4, 0>>).st = "err"
\* every address type but 1, 3, 4 is an error; every domain length 0..255 is well-formed
ASSUME Atyps == \A t \in Byte \ {1, 3, 4} : ParseS5Request(<<5, 1, 0, t>>).st = "err" /\ ParseUdp(<<0, 0, 0, t>>).st = "err"
ASSUME AllDomainLengths ==
  \A n \in 0 .. 255 : LET m == S5Request(1, 3, Rep(120, n), 443) IN
     /\ Same(ParseS5Request(m), [cmd |-> 1, atyp |-> 3, addr |-> Rep(120, n), port |-> 443], n + 7)
     /\ ParseS5Request(Take(m, Len(m) - 1)).st = "needmore"
     /\ LET q == S4aRequest(1, 443, 9, <<>>, Rep(120, n)) IN
          /\ Same(ParseS4Request(q), [cmd |-> 1, atyp |-> 3, addr |-> Rep(120, n), port |-> 443], n + 10)
          /\ ParseS4Request(Take(q, Len(q) - 1)).st = "needmore"
=============================================================================
