\* C19 part B: script enumeration and clauses of the property (see MC_Retry.tla)
SPECIFICATION Spec
CONSTANTS
  OrderlyMode = "reconnect"
  Params <- ParamsT
  MaxAtt = 4
  StepBehs = {"refuse", "rst", "stall", "bad", "mute", "close_orderly", "close_abrupt", "drop_unserved", "healthy", "down"}
  CloseDs = {0, 600}
  MaxStall = 1
  MaxMute = 2
  MaxOpen = 2
  MaxClose = 2
INVARIANTS TypeOK DelaySequence WaitedIsPrescribed ResetAfterSuccess GiveUpExactly NonRetryableEndsAtOnce ListenerAlive NoLostRequest Emit
CHECK_DEADLOCK FALSE
