------------------------------ MODULE MC_Retry ------------------------------
(***************************************************************************)
(* C19, part B: TLC enumerates the scripts of server behaviours (one step  *)
(* per connection attempt, at most MaxAtt observable attempts) for the     *)
(* parameter tuples of Params, checks the clauses of the property on every *)
(* state of ClientRetry.tla, and prints one line  <<"CASE", json>>  per    *)
(* complete script (the client ended, or the script reached a terminal     *)
(* step) with the waiting windows the driver needs and the observations    *)
(* the specification expects.  The order of the actions of one attempt is  *)
(* fixed (Attempt, local connection, outcome, Wake), so that every script  *)
(* is exactly one behaviour.                                               *)
(***************************************************************************)
EXTENDS ClientRetry, Json

CONSTANTS Params,      \* set of [mrc, mri, hs, ct]
          MaxAtt,      \* observable attempts per script
          StepBehs,    \* behaviours used
          CloseDs,     \* durations of a close_* connection
          MaxStall, MaxMute, MaxOpen, MaxClose

VARIABLES script,      \* the steps chosen so far
          didOpen      \* the local connection of the current step has been made

mvars == <<script, didOpen>>

P(mrc, mri) == [mrc |-> mrc, mri |-> mri, hs |-> 1000, ct |-> 1000]
ParamsQ == { P(2, 400), P(0, 800) }
ParamsT == { P(2, 400), P(0, 800), P(3, 500), P(1, 100) }
ParamsR == { P(0, 3200), P(5, 3200) }     \* long intervals: a delay that was not reset shows in the timing

Count(b) == Cardinality({ i \in 1 .. Len(script) : script[i].beh \in b })

Steps ==
  { [beh |-> b, d |-> d, open |-> o] : b \in StepBehs, d \in CloseDs \cup {0}, o \in BOOLEAN }

Allowed(s) ==
  /\ Len(script) < MaxAtt
  /\ s.d # 0 => s.beh \in {"close_orderly", "close_abrupt", "drop_unserved"}
  /\ s.beh \in {"close_orderly", "close_abrupt"} => s.d \in CloseDs /\ Count({"close_orderly", "close_abrupt"}) < MaxClose
  \* a connection lost while a stream request is in flight: there is such a request, and it has time to be sent
  /\ s.beh = "drop_unserved" => /\ s.d \in CloseDs \ {0} /\ (pending # {} \/ s.open)
                                 /\ Count({"drop_unserved"}) < MaxMute
  \* a connection that has to serve someone is not closed at once
  /\ (s.beh \in {"close_orderly", "close_abrupt"} /\ s.d = 0) => (~s.open /\ pending = {})
  /\ s.beh = "mute" => (pending # {} \/ s.open) /\ Count({"mute"}) < MaxMute
  /\ s.beh = "stall" => Count({"stall"}) < MaxStall
  /\ s.beh = "rst" => att = 0
  /\ s.beh = "bad" => ~s.open
  /\ s.open => opened < MaxOpen
  \* no local connection at the moment the client gives up (the listener closes with the client)
  /\ (s.open /\ s.beh \in {"refuse", "rst", "stall"}) => ~(p.mrc # 0 /\ k >= p.mrc)

Init == /\ \E q \in Params : CInit(q)
        /\ script = <<>> /\ didOpen = FALSE

OpenDone == cur.open => didOpen

Choose ==
  /\ ~srvDown
  /\ \E s \in Steps : Allowed(s) /\ Attempt(s) /\ script' = Append(script, s)
  /\ didOpen' = FALSE

(* the unobservable attempts after the server went down *)
DownAgain ==
  /\ srvDown /\ p.mrc # 0
  /\ Attempt([beh |-> "down", d |-> 0, open |-> FALSE])
  /\ UNCHANGED script /\ didOpen' = FALSE

OpenNow ==
  /\ cur.open /\ ~didOpen
  /\ \/ phase = "trying" /\ cur.beh \in Refusals
     \/ phase = "up"
  /\ LocalOpen /\ didOpen' = TRUE /\ UNCHANGED script

Nudge ==   \* pinned mode only: the driver's reaction to the missing attempt
  /\ phase = "zombie" /\ OpenDone
  /\ LocalOpen /\ UNCHANGED mvars

Next ==
  \/ Choose
  \/ DownAgain
  \/ OpenNow
  \/ Up /\ UNCHANGED mvars
  \/ OpenDone /\ FailTry /\ UNCHANGED mvars
  \/ Fatal /\ UNCHANGED mvars
  \/ OpenDone /\ Lose /\ UNCHANGED mvars
  \/ Wake /\ UNCHANGED mvars
  \/ Nudge

Spec == Init /\ [][Next]_<<cvars, mvars>>

(* ------------------------------------------------------------------ *)
Final ==
  \/ phase = "ended"
  \/ phase = "up" /\ cur.beh = "healthy" /\ OpenDone
  \/ srvDown /\ p.mrc = 0 /\ phase = "waiting"

Margin == 300
ObserveHealthy == 800
ObserveDown == 1000
InvisibleAttempts == Len(hist) - Len(script)

WaitOf(j) ==
  IF j < Len(script)
  THEN GapMax(script[j].beh, p, hist[j].delayAfter) + Margin
  ELSE CASE script[j].beh = "healthy" -> ObserveHealthy
         [] script[j].beh = "down" -> IF p.mrc = 0 THEN ObserveDown
                                      ELSE GapMax(IF j = 1 THEN "start" ELSE script[j - 1].beh, p, acc)
                                           + Late * InvisibleAttempts + Margin
         [] OTHER -> GapMax(script[j].beh, p, 0) + Margin

ScriptOut ==
  [mrc |-> p.mrc, mri |-> p.mri, hs |-> p.hs, ct |-> p.ct,
   nudge_wait |-> GapMax("refuse", p, DelayOf(0, p.mri)) + Margin,
   steps |-> [j \in 1 .. Len(script) |->
                [beh |-> script[j].beh, d |-> script[j].d, open |-> script[j].open, wait |-> WaitOf(j)]],
   expect |-> [result |-> result,
               delays |-> [j \in 1 .. Len(hist) |-> hist[j].delayAfter],
               attempts |-> Len(hist),
               served |-> served, pending |-> pending]]

Emit == (Final /\ OrderlyMode = "reconnect") => PrintT(<<"CASE", ToJson(ScriptOut)>>)

ScriptBound == Len(script) <= MaxAtt
=============================================================================
