\* C14 thorough: up to three simultaneous deviations from the valid request, x 4 configurations,
\* fallback = configured 404
SPECIFICATION Spec
CONSTANTS
  MaxDev = 3
  UseBackends = {"none"}
  NPick = 10
INVARIANTS TypeOK Laws Single Emit
CHECK_DEADLOCK FALSE
