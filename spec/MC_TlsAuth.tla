----------------------------- MODULE MC_TlsAuth -----------------------------
(***************************************************************************)
(* Case enumeration for property C17 (see TlsAuth.tla).                    *)
(*                                                                         *)
(* kind = "case":   a state is one cell of the matrix (72 initial states   *)
(*                  without successors); TLC prints one line               *)
(*                  <<"CASE", json>> with the cell, the set of outcomes    *)
(*                  the property allows and whether the server asks for a  *)
(*                  client certificate.                                    *)
(* kind = "script": the reload machine of TlsAuth.tla runs; `hist` is the  *)
(*                  sequence of operations so far, `obs` what each of them *)
(*                  must observe.  Every interleaving of at most MaxConn   *)
(*                  Connect, MaxReload Reload and MaxUse Use(c) is a       *)
(*                  state; the complete ones are printed as                *)
(*                  <<"SCRIPT", json>> (every shorter interleaving is a    *)
(*                  prefix of a complete one and is executed with it).     *)
(*                  `c` = [mtls |-> b]: the scripts run with (b) or        *)
(*                  without mutual TLS.                                    *)
(* kind = "real":   the same machine, for the runs through the real server *)
(*                  entry point (server_main + SIGUSR1): a connection is   *)
(*                  ConnectAs(cc) for every cc of ClientCerts (the client  *)
(*                  certificate under the configured CA, none, one of      *)
(*                  another CA), so that a handshake is also a PROBE of    *)
(*                  the server's client authentication before and after    *)
(*                  every reload.  hist[i].conn is the number the          *)
(*                  connection gets if the property admits it, 0 if the    *)
(*                  handshake must be refused.  Bounds RMaxConn /          *)
(*                  RMaxReload / RMaxUse; a script is complete when all    *)
(*                  connections and reloads happened and either all uses   *)
(*                  did or no connection was admitted (nothing to use);    *)
(*                  printed as <<"RSCRIPT", json>>.                        *)
(* On every state TLC checks Undisturbed, Fresh, ConfigKept and            *)
(* Authenticated.                                                          *)
(***************************************************************************)
EXTENDS TlsAuth, TLC, Json

CONSTANTS MaxConn, MaxReload, MaxUse, Mtls,
          RMaxConn, RMaxReload, RMaxUse, RealMtls

VARIABLES kind, c, hist, obs

vars == <<kind, c, hist, obs, identityVersion, live, conns, wantCA, liveCA>>

Count(op) == Cardinality({i \in DOMAIN hist : hist[i].op = op})

Bound(op) ==
  IF kind = "real"
  THEN CASE op = "connect" -> RMaxConn [] op = "reload" -> RMaxReload [] OTHER -> RMaxUse
  ELSE CASE op = "connect" -> MaxConn [] op = "reload" -> MaxReload [] OTHER -> MaxUse

Init ==
  /\ hist = <<>> /\ obs = <<>>
  /\ \/ kind = "case" /\ c \in Cases /\ MInitWith(c.serverClientCA)
     \/ kind = "script" /\ c \in [mtls : Mtls] /\ MInitWith(CAOf(c.mtls))
     \/ kind = "real" /\ c \in [mtls : RealMtls] /\ MInitWith(CAOf(c.mtls))

DoConnect ==
  /\ Count("connect") < Bound("connect")
  /\ Connect
  /\ hist' = Append(hist, [op |-> "connect", conn |-> Len(conns) + 1])
  /\ obs' = Append(obs, live)

\* real-server mode: the client presents cc; obs = what the property demands of this handshake
DoConnectAs(cc) ==
  /\ Count("connect") < Bound("connect")
  /\ ConnectAs(cc)
  /\ hist' = Append(hist, [op |-> "connect", conn |-> IF Admitted(cc) THEN Len(conns) + 1 ELSE 0, cc |-> cc])
  /\ obs' = Append(obs, [outcome |-> HandshakeOutcome(cc), identity |-> live])

DoReload ==
  /\ Count("reload") < Bound("reload")
  /\ Reload
  /\ hist' = Append(hist, [op |-> "reload", conn |-> 0])
  /\ obs' = Append(obs, identityVersion + 1)

DoUse(x) ==
  /\ Count("use") < Bound("use")
  /\ Use(x)
  /\ hist' = Append(hist, [op |-> "use", conn |-> x])
  /\ obs' = Append(obs, IF Works(x) THEN Sees(x) ELSE 0 - 1)

Next ==
  /\ UNCHANGED <<kind, c>>
  /\ \/ kind = "script" /\ (DoConnect \/ DoReload \/ \E x \in DOMAIN conns : DoUse(x))
     \/ kind = "real" /\ ((\E cc \in ClientCerts : DoConnectAs(cc)) \/ DoReload \/ \E x \in DOMAIN conns : DoUse(x))

Spec == Init /\ [][Next]_vars

Complete ==
  /\ Count("connect") = Bound("connect") /\ Count("reload") = Bound("reload")
  /\ Count("use") = Bound("use") \/ (kind = "real" /\ conns = <<>>)

TypeOK ==
  /\ MTypeOK
  /\ kind \in {"case", "script", "real"}
  /\ kind = "case" => c \in Cases /\ hist = <<>> /\ Expected(c) \subseteq Outcomes
  /\ Len(obs) = Len(hist)

Emit ==
  CASE kind = "case" ->
         PrintT(<<"CASE", ToJson([case |-> c, exp |-> Expected(c), asks |-> ServerAsksForCert(c)])>>)
    [] kind = "script" /\ Complete ->
         PrintT(<<"SCRIPT", ToJson([mtls |-> c.mtls, ops |-> hist, exp |-> obs])>>)
    [] kind = "real" /\ Complete ->
         PrintT(<<"RSCRIPT", ToJson([mtls |-> c.mtls, ops |-> hist, exp |-> obs])>>)
    [] OTHER -> TRUE
=============================================================================
