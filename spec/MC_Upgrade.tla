----------------------------- MODULE MC_Upgrade -----------------------------
(***************************************************************************)
(* Case enumeration for property C14 (see Upgrade.tla).                    *)
(*                                                                         *)
(* A state is one case c = [req, cfg, pick].  Initial states: the fully    *)
(* valid upgrade request under each configuration (PSK set / unset x       *)
(* obfuscation on / off x the backends of UseBackends).  Action Deviate     *)
(* replaces the value of ONE field that still has its valid value (method, *)
(* path, upgrade extension, one of the six headers) by one of its other    *)
(* values, as long as fewer than MaxDev fields deviate.  Reachable states = all requests that       *)
(* differ from the valid one in at most MaxDev fields:                     *)
(*   MaxDev = 2 : every single deviation and ALL PAIRS of deviations       *)
(*   MaxDev = 3 : all triples as well                                      *)
(* `pick` selects which member of a pool of concrete values the harness    *)
(* uses for a variant (which near-miss, which case change, which padding): *)
(* 0 everywhere, and every single header deviation that draws on a pool is *)
(* repeated with picks 1 .. NPick-1 (action Repick).                       *)
(* On every distinct state TLC checks the sanity theorems of the table and *)
(* prints one line  <<"CASE", json>>  (invariant Emit).                    *)
(*                                                                         *)
(* The table factors through the verdict of each condition (Combine), so   *)
(* the theorems over the FULL matrix (every method x path x 9^5 x 10       *)
(* header variants x extension x configuration, 7.6e8 requests) are        *)
(* checked once, exhaustively, over the 3^9 verdict vectors (ASSUME).      *)
(***************************************************************************)
EXTENDS Upgrade, TLC, Json

CONSTANTS MaxDev, UseBackends, NPick

VARIABLE c

Fields == {"method", "path", "ext"} \cup HeaderNames
Get(req, f) == CASE f = "method" -> req.method [] f = "path" -> req.path [] f = "ext" -> req.ext [] OTHER -> req.h[f]
Put(req, f, v) == CASE f = "method" -> [req EXCEPT !.method = v]
                    [] f = "path"   -> [req EXCEPT !.path = v]
                    [] f = "ext"    -> [req EXCEPT !.ext = v]
                    [] OTHER        -> [req EXCEPT !.h[f] = v]
Dom(f) == CASE f = "method" -> Methods [] f = "path" -> Paths [] f = "ext" -> BOOLEAN [] OTHER -> VariantsOf(f)
Deviating(req) == {f \in Fields : Get(req, f) # Get(Valid, f)}

Pooled == {"case", "near", "dupgb", "dupbg", "list", "padded"}

Init == c \in [req : {Valid}, cfg : [psk : BOOLEAN, obfs : BOOLEAN, backend : UseBackends], pick : {0}]
Deviate ==
  /\ c.pick = 0
  /\ Cardinality(Deviating(c.req)) < MaxDev
  /\ \E f \in Fields \ Deviating(c.req) :
       \E v \in Dom(f) \ {Get(Valid, f)} :
          c' = [c EXCEPT !.req = Put(c.req, f, v)]
Repick ==
  /\ c.pick = 0
  /\ Cardinality(Deviating(c.req)) = 1
  /\ \E f \in HeaderNames : f \in Deviating(c.req) /\ c.req.h[f] \in Pooled
  /\ \E p \in 1 .. (NPick - 1) : c' = [c EXCEPT !.pick = p]
Next == Deviate \/ Repick
Spec == Init /\ [][Next]_c

TypeOK == c.req \in Requests /\ c.cfg \in Cfgs /\ c.pick \in 0 .. (NPick - 1)
Laws == Theorems(c.req, c.cfg)
\* a single decided deviation from the valid request always leads to the fallback (no condition is redundant)
Single ==
  (Cardinality(Deviating(c.req)) = 1 /\ PathClass(c.req.path) = "ws") =>
     LET f == CHOOSE x \in Fields : x \in Deviating(c.req) IN
     CASE f = "method" -> Expected(c.req, c.cfg) = "fallback"
       [] f \in HeaderNames \ {"psk"} ->
            ( Expected(c.req, c.cfg) = (CASE HeaderOk(f, c.req.h[f]) = "yes" -> "101"
                                          [] HeaderOk(f, c.req.h[f]) = "no" -> "fallback"
                                          [] OTHER -> "either") )
       [] f = "psk" ->
            ( Expected(c.req, c.cfg) = (CASE ~c.cfg.psk \/ HeaderOk(f, c.req.h[f]) = "yes" -> "101"
                                          [] HeaderOk(f, c.req.h[f]) = "no" -> "fallback"
                                          [] OTHER -> "either") )
       [] OTHER -> TRUE

Emit == PrintT(<<"CASE", ToJson([req |-> c.req, cfg |-> c.cfg, pick |-> c.pick, exp |-> Expected(c.req, c.cfg),
                                 ndev |-> Cardinality(Deviating(c.req))])>>)

(* ---------------- the theorems over the full matrix, through the verdict vectors ---------------- *)
AllV == [CondNames -> Verdict]
ASSUME Full101 ==       \* 101 exactly when the path is /ws and every condition holds
  \A V \in AllV : \A o \in BOOLEAN : \A pc \in {"ws", "health", "version", "other"} :
     (Combine(pc, o, V) = "101") <=> (pc = "ws" /\ \A k \in CondNames : V[k] = "yes")
ASSUME FullWs ==        \* every other /ws outcome is the fallback, or undecided between the two
  \A V \in AllV : \A o \in BOOLEAN :
     /\ Combine("ws", o, V) \in {"101", "fallback", "either"}
     /\ (\E k \in CondNames : V[k] = "no") => Combine("ws", o, V) = "fallback"
     /\ Combine("ws", o, V) = "either" => /\ \A k \in CondNames : V[k] # "no"
                                          /\ \E k \in CondNames : V[k] = "either"
ASSUME FullObfs ==      \* obfuscation: no status pages; no tunnel off /ws
  \A V \in AllV : \A pc \in {"health", "version", "other"} :
     /\ Combine(pc, TRUE, V) = "fallback"
     /\ Combine(pc, FALSE, V) \in {"fallback", "health", "version"}
ASSUME FullHeaderOk ==  \* the header table is total, and only the listed variants pass
  /\ \A h \in HeaderNames : \A v \in VariantsOf(h) : HeaderOk(h, v) \in Verdict
  /\ \A h \in HeaderNames : HeaderOk(h, "exact") = "yes" /\ HeaderOk(h, "absent") = "no"
  /\ \A h \in HeaderNames : \A v \in {"dupgb", "dupbg"} : HeaderOk(h, v) = "either"
  /\ \A v \in VariantsOf("psk") : HeaderOk("psk", v) = "yes" <=> v = "exact"
  /\ \A h \in WordHeaders : HeaderOk(h, "case") = "yes" /\ HeaderOk(h, "near") = "no" /\ HeaderOk(h, "empty") = "no"
\* the concrete decision procedure on the octets of the property text
ASSUME ConcSanity ==
  /\ ConcWord("conn", <<WUpgrade>>) = "yes"
  /\ ConcWord("conn", << <<85, 80, 71, 82, 65, 68, 69>> >>) = "yes"                      \* UPGRADE
  /\ ConcWord("conn", << <<107, 101, 101, 112, 45, 97, 108, 105, 118, 101, 44, 32, 85, 112, 103, 114, 97, 100, 101>> >>) = "either"
  /\ ConcWord("conn", << <<117, 112, 103, 114, 97, 100, 101, 115>> >>) = "no"            \* upgrades
  /\ ConcWord("conn", <<>>) = "no" /\ ConcWord("conn", << <<>> >>) = "no"
  /\ ConcWord("version", <<W13, W13>>) = "either" /\ ConcWord("proto", <<WProto, WProto>>) = "yes"
  /\ ConcWord("version", << <<49, 51, 44, 32, 56>> >>) = "no"                            \* 13, 8
  /\ ConcWord("upgrade", <<WWebsocket, <<104, 50, 99>> >>) = "either"
  /\ TokenSet(<<97, 44, 32, 98, 9, 44, 44, 99>>) = { <<97>>, <<98>>, <<>>, <<99>> }
  /\ ConcPsk(<< <<1, 2>> >>, <<1, 2>>) = "yes" /\ ConcPsk(<< <<1>> >>, <<1, 2>>) = "no"
  /\ ConcPsk(<< <<1, 2>>, <<1, 2>> >>, <<1, 2>>) = "either" /\ ConcPsk(<<>>, <<1, 2>>) = "no"
=============================================================================
