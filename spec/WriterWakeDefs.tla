--------------------------- MODULE WriterWakeDefs ---------------------------
(* The writer/credit contract of C12 over an observed execution; shared by the algorithm model
   (WriterWake.tla) and the validation of loom executions (WakeTrace.tla).                    *)
EXTENDS Naturals, Sequences, FiniteSets, TLC

(* ------------------------------------------------------------------ *)
(* The contract over an observed execution                             *)
(* ------------------------------------------------------------------ *)
Count(seq, x) == Cardinality({i \in DOMAIN seq : seq[i] = x})
(* polls: results; wk: per-poll wake counts; after: what a poll after everything returns;
   cf: final credit; cl: final closed flag; c0: initial credit; ops: task operations *)
Contract(c0, ops, polls, wk, after, cf, cl) ==
  LET grants == Count(ops, "a")
      okn == Count(polls, "ok") + (IF after = "ok" THEN 1 ELSE 0)
      n == Len(polls)
  IN /\ cf + okn = c0 + grants                                   \* credit conserved, no frame without credit
     /\ cl = (Count(ops, "c") > 0)
     /\ cl => after = "broken"
     /\ Count(polls, "broken") > 0 => Count(ops, "c") > 0
     /\ after = "pending" => ~cl /\ cf = 0
     (* no lost wake-up: a writer left waiting although it could proceed or should fail was woken *)
     /\ (n > 0 /\ polls[n] = "pending" /\ after # "pending") => wk[n] >= 1

=============================================================================
