\* C01: negative control: a network with the fault `killother` must violate Inv_HalfClose
SPECIFICATION Spec
CONSTANTS
  MaxW = 1
  Sizes = {0, 2}
  Fault = "killother"
  Proto = "tcp"
  Gen = FALSE
  MaxK = 1
INVARIANTS Inv_HalfClose
