#!/usr/bin/env python3
"""WsAdapter family: the adapter `impl penguin_mux::ws::WebSocket for tokio_tungstenite::WebSocketStream<RW>` and the
conversions `From<tungstenite::Message> for Message` / `From<Message> for tungstenite::Message` of
/repo/penguin-mux/src/ws.rs, bound to a TLA+ contract (part of C10, C08, C16, C02).

spec/WsAdapter.tla        the contract of one end of a WebSocket connection seen through the trait, over abstract
                          RFC 6455 messages (from the RFC and the doc comments of ws.rs)
spec/MC_WsAdapter.tla     SpecLaws: TLC checks the laws of the contract on every behaviour of bounded depth;
                          SpecEnum: TLC enumerates the scripts (bounded-exhaustive), one `CASE` line each
harness ws_vec            runs every script -- and seeded random longer ones -- on the real adapter, as server and as
                          client, over an in-memory transport with a hand-written RFC 6455 encoder / decoder as raw peer
spec/WsAdapterTrace.tla   TLC validates every logged line; rejected scripts come back with a signature

Use as a leg of a property check:   leg(prop, tier, seed) -> {"violations": [(replay, signature, n)], "coverage": {...}}
Stand-alone:                        python3 tools/fam_ws.py quick|thorough [--seed N] [--replay FILE]

A rejected script whose signature is an `open` entry of KNOWN_FINDINGS.json (`"property": <prop>, "sig": "ws:<sig>"`)
is printed as KNOWN-FINDING and is not a violation.
"""
import collections, concurrent.futures, json, os, re, shutil, sys, tempfile, time

sys.path.insert(0, os.path.dirname(os.path.abspath(__file__)))
import vlib
from vlib import log, ToolError

TIERS = {
    # laws: configurations of SpecLaws; enum: configurations of SpecEnum; random: scripts per batch (each run in both
    # roles); chunk: scripts per TLC validation run
    "quick": dict(laws=["MC_WsAdapter_laws_q"], enum=["MC_WsAdapter_q"], random=300, batches=1, chunk=3200),
    "thorough": dict(laws=["MC_WsAdapter_laws", "MC_WsAdapter_laws_w"], enum=["MC_WsAdapter", "MC_WsAdapter_d4"],
                     random=3000, batches=4, chunk=6000),
}
MC_WORKERS = 3          # the machine is shared: 3 workers for the laws + 1 for the enumeration running beside it
TLC_PARALLEL = 3        # concurrent trace validations (one worker each)
TRACE_CFG = os.environ.get("WS_TRACE_CFG", "WsAdapterTrace")   # WsAdapterTrace_eoferr: EOF without Close must be Some(Err)
CASE_RE = re.compile(r'^<<"CASE", "(.*)">>$')
BAD_RE = re.compile(r'^<<"BAD", (\d+), "([^"]*)", "(.*)", (\d+)>>$')
MAX_REPLAY_SCRIPTS = 40
ADAPTER_OPS = ("next", "send", "flush", "close")


def _unq(s):
    return json.loads(s.encode().decode("unicode_escape"))


# ------------------------------------------------------------------------------------------------------------------
# model checking
# ------------------------------------------------------------------------------------------------------------------
def check_laws(cfg):
    r = vlib.model_check("MC_WsAdapter", cfg, workers=MC_WORKERS, timeout=3000, coverage=False)
    if not r["ok"]:
        log(r["out"][-3000:])
        raise ToolError(f"the contract violates its own law {r['violated']} in {cfg} (triage spec/WsAdapter.tla)")
    if r["distinct"] < 1000:
        raise ToolError(f"vacuous model checking run {cfg}: {r['distinct']} states")
    return dict(config=cfg, distinct_states=r["distinct"], states_generated=r["states"], wall_s=round(r["wall"], 1))


def step_of(o):
    """a step as TLC prints it (uniform record) -> a step of the harness"""
    op = o["op"]
    if op == "feed":
        w = o["what"]
        if w in ("binary", "text", "cont"):
            return dict(op="feed", what=w, len=o["len"], fin=o["fin"])
        if w in ("ping", "pong"):
            return dict(op="feed", what=w, len=o["len"])
        if w == "close":
            return dict(op="feed", what="close", var=o["a"])
        if w == "frag":
            return dict(op="feed", what="frag", len=o["len"], cut=o["a"], plen=o["b"])
        if w == "bad":
            return dict(op="feed", what="bad", why=o["why"])
        if w == "eof":
            return dict(op="feed", what="eof")
        if w in ("ioerr", "ioerr_rst"):
            return dict(op="feed", what="ioerr", rst=(w == "ioerr_rst"))
        raise ToolError(f"unknown feed step {o}")
    if op == "send":
        return dict(op="send", kind=o["what"], len=o["len"]) if o["what"] == "binary" else dict(op="send", kind=o["what"])
    if op in ("next", "flush", "close", "wfail"):
        return dict(op=op)
    raise ToolError(f"unknown step {o}")


def enumerate_scripts(cfg):
    r = vlib.model_check("MC_WsAdapter", cfg, workers=1, timeout=3000, coverage=False)
    if not r["ok"]:
        log(r["out"][-3000:])
        raise ToolError(f"enumeration {cfg} failed: {r['violated']}")
    scripts = []
    for line in r["out"].split("\n"):
        m = CASE_RE.match(line.strip())
        if m:
            scripts.append([step_of(o) for o in _unq(m.group(1))])
    if len(scripts) < 100 or len(scripts) > r["distinct"]:
        raise ToolError(f"{len(scripts)} CASE lines for {r['distinct']} distinct states in {cfg}")
    if len({json.dumps(s, sort_keys=True) for s in scripts}) != len(scripts):
        raise ToolError(f"duplicate scripts in the enumeration {cfg}")
    kinds = collections.Counter()
    for s in scripts:
        for st in s:
            kinds[st["op"] + ":" + st.get("what", st.get("kind", ""))] += 1
    # vacuity: every kind of step the task names occurs
    need = ["feed:binary", "feed:text", "feed:ping", "feed:pong", "feed:close", "feed:frag", "feed:eof", "feed:ioerr",
            "feed:cont", "feed:bad", "next:", "send:binary", "send:ping", "send:pong", "send:close", "flush:", "close:",
            "wfail:"]
    for n in need:
        if kinds[n] == 0:
            raise ToolError(f"vacuous enumeration {cfg}: no step {n}")
    return scripts, dict(config=cfg, scripts=len(scripts), distinct_states=r["distinct"], states_generated=r["states"],
                         wall_s=round(r["wall"], 1), max_len=max(len(s) for s in scripts))


# ------------------------------------------------------------------------------------------------------------------
# the harness and its logs
# ------------------------------------------------------------------------------------------------------------------
def run_harness(bin_path, args):
    rc, o = vlib.run([bin_path] + args, timeout=3000)
    if rc != 0:
        log(o[-2000:])
        raise ToolError("ws_vec failed: " + " ".join(args[:2]))


def split_scripts(path):
    """-> list of scripts, each a list of raw lines starting with its reset line"""
    scripts = []
    with open(path) as f:
        for line in f:
            if line.startswith('{"ev":"reset"'):
                scripts.append([])
            if not scripts:
                raise ToolError(f"{path} does not start with a reset line")
            scripts[-1].append(line)
    return scripts


def case_of(lines):
    """the script (as the harness takes it) back from its logged lines"""
    head = json.loads(lines[0])
    steps = []
    for text in lines[1:]:
        r = json.loads(text)
        ev = r["ev"]
        if ev == "feed":
            w = r["what"]
            if w in ("binary", "text", "cont"):
                steps.append(dict(op="feed", what=w, len=r["len"], fin=r["fin"]))
            elif w in ("ping", "pong"):
                steps.append(dict(op="feed", what=w, len=r["len"]))
            elif w == "close":
                steps.append(dict(op="feed", what="close", var=r["var"]))
            elif w == "frag":
                steps.append(dict(op="feed", what="frag", len=r["len"], cut=r["cut"], plen=r["plen"]))
            elif w == "bad":
                steps.append(dict(op="feed", what="bad", why=r["why"]))
            elif w == "ioerr":
                steps.append(dict(op="feed", what="ioerr", rst=r["rst"]))
            else:
                steps.append(dict(op="feed", what=w))
        elif ev == "send":
            steps.append(dict(op="send", kind=r["kind"], len=r["len"]) if r["kind"] == "binary"
                         else dict(op="send", kind=r["kind"]))
        else:
            steps.append(dict(op=ev))
    return dict(role=head["role"], rchunk=head["rchunk"], wchunk=head["wchunk"], steps=steps, src="replay")


def validate_file(path):
    """One TLC run over a log. -> (lines, scripts, bad) with bad = [(line_no, sig, expected, script_no)]"""
    r = vlib.validate_once("WsAdapterTrace", TRACE_CFG, path, timeout=3000, xmx="6g", raw=True)
    out = r["out"]
    m = re.search(r'<<"ACCEPTED lines", (\d+), "scripts", (\d+)>>', out)
    if m and "Model checking completed. No error has been found." in out:
        return int(m.group(1)), int(m.group(2)), [], r["states"]
    m = re.search(r'<<"REJECTED scripts", (\d+), "of", (\d+), "lines", (\d+)>>', out)
    mc = re.search(r'<<"BADCOUNT", (\d+)>>', out)
    if not m or not mc:
        log(out[-4000:])
        raise ToolError("trace validation ended without a verdict for " + path)
    bad = []
    for line in out.split("\n"):
        mb = BAD_RE.match(line.strip())
        if mb:
            try:
                exp = _unq(mb.group(3)) if mb.group(3) else None
                if isinstance(exp, str):
                    exp = json.loads(exp)
            except Exception:
                exp = None
            bad.append((int(mb.group(1)), mb.group(2), exp, int(mb.group(4))))
    if len(bad) != int(mc.group(1)) or not bad:
        log(out[-4000:])
        raise ToolError("trace validation: BAD lines do not add up for " + path)
    return int(m.group(3)), int(m.group(2)), bad, r["states"]


def describe(lines, upto):
    out = []
    for i, text in enumerate(lines[:upto], 1):
        r = json.loads(text)
        ev = r["ev"]
        wire = " wire=" + ",".join(f"{w['kind']}({w['len']}{'m' if w['masked'] else ''})" for w in r.get("wire", [])) \
            if r.get("wire") else ""
        if ev == "reset":
            s = f"reset role={r['role']} rchunk={r['rchunk']} wchunk={r['wchunk']}"
        elif ev == "feed":
            s = f"feed {r['what']} len={r['len']} fin={r['fin']} k={r['k']}" + \
                (f" var={r['var']}" if r["what"] == "close" else "") + \
                (f" cut={r['cut']} plen={r['plen']}" if r["what"] == "frag" else "") + \
                (f" why={r['why']}" if r["what"] == "bad" else "")
        elif ev == "next":
            m = r["msg"]
            s = f"next -> {r['res']}" + (f" {m['kind']}(len={m['len']} first={m['first']} r251={m['r251']} r95={m['r95']})"
                                         if r["res"] == "msg" else "") + (f" [{r['text']}]" if r.get("text") else "")
        elif ev == "send":
            s = f"send {r['kind']}(len={r['len']} k={r['k']}) ready={r['ready']} -> {r['res']}" + \
                (f" [{r['text']}]" if r.get("text") else "")
        else:
            s = f"{ev} -> {r.get('res', '')}" + (f" [{r['text']}]" if r.get("text") else "")
        out.append(f"{'>>' if i == upto else '  '}{i:3d} {s}{wire}")
    return out


# ------------------------------------------------------------------------------------------------------------------
# the leg
# ------------------------------------------------------------------------------------------------------------------
def _chunks(scripts, n):
    for i in range(0, len(scripts), n):
        yield scripts[i:i + n]


def validate_logs(logs, work, chunk):
    """logs: [(name, path)] -> (total_lines, total_scripts, tlc_states, rejected, stats)
    rejected: sig -> [(script_lines, line_in_script, expected, source)]"""
    jobs = []   # (name, part_path, scripts_of_part)
    for name, path in logs:
        scripts = split_scripts(path)
        for j, part in enumerate(_chunks(scripts, chunk)):
            p = os.path.join(work, f"{name}_part{j}.ndjson")
            with open(p, "w") as f:
                for s in part:
                    f.writelines(s)
            jobs.append((name, p, part))
    total_lines = total_scripts = states = 0
    rejected = collections.defaultdict(list)
    per_log = collections.Counter()
    bad_scripts = set()
    with concurrent.futures.ThreadPoolExecutor(max_workers=TLC_PARALLEL) as ex:
        results = list(ex.map(lambda j: validate_file(j[1]), jobs))
    for (name, p, part), (nl, ns, bad, st) in zip(jobs, results):
        want = sum(len(s) for s in part)
        if nl != want or ns != len(part) or nl == 0:
            raise ToolError(f"TLC saw {nl} lines / {ns} scripts of {want} / {len(part)} in {p}")
        total_lines += nl
        total_scripts += ns
        states += st
        per_log[name] += ns
        starts = []
        acc = 0
        for s in part:
            starts.append(acc)
            acc += len(s)
        for ln, sig, exp, k in bad:
            if k < 1 or k > len(part):
                raise ToolError(f"malformed log {p}: lines before the first reset")
            if sig.startswith("other:malformed_line") or sig == "other:no_verdict":
                raise ToolError(f"malformed log line {ln} in {p} ({sig}): {part[k - 1][ln - starts[k - 1] - 1][:300]}")
            rejected[sig].append((part[k - 1], ln - starts[k - 1], exp, name))
            bad_scripts.add((p, k))
    return total_lines, total_scripts, states, rejected, dict(per_log=dict(per_log), tlc_runs=len(jobs),
                                                              rejected_scripts=len(bad_scripts))


def outcome_stats(logs, rejected_scripts):
    """observed outcomes by kind; accepted script runs in which the adapter delivered or wrote something (distinct)"""
    outcome = collections.Counter()
    nontrivial = set()
    samples = []
    for name, path in logs:
        for s in split_scripts(path):
            active = False      # the adapter delivered a message or wrote one in this script
            for text in s[1:]:
                r = json.loads(text)
                ev = r["ev"]
                wire = "+".join(w["kind"] for w in r.get("wire", []))
                if ev == "next":
                    key = (ev, r["res"], r["msg"]["kind"], wire)
                    active |= r["res"] == "msg"
                elif ev == "send":
                    key = (ev + ":" + r["kind"], r["res"], "", wire)
                elif ev in ("flush", "close"):
                    key = (ev, r["res"], "", wire)
                else:
                    continue
                active |= bool(wire)
                outcome[key] += 1
            if active and "".join(s) not in rejected_scripts:
                # the script and everything observed, without its number
                h = vlib.trace_hash([re.sub(r'"script":\d+,', "", s[0])] + s[1:])
                if h not in nontrivial and len(samples) < 3 and 4 <= len(s) <= 7:
                    samples.append([json.loads(x) for x in s])
                nontrivial.add(h)
    return outcome, nontrivial, samples


def leg(prop, tier, seed, replay=None):
    """Runs the family. -> {"violations": [(replay_path, signature, n)], "coverage": {...}}  (no evidence file written)"""
    if tier not in TIERS:
        raise ToolError(f"unknown tier {tier}")
    T = TIERS[tier]
    t0 = time.time()
    os.environ.setdefault("CARGO_BUILD_JOBS", "6")
    # WS_HARNESS_CRATE: a copy of the harness crate whose path dependencies point at a scratch copy of the repository
    # (used to demonstrate the binding with mutants of ws.rs; never set by a registered check)
    bin_path = os.path.join(vlib.build_harness(["ws_vec"], crate=os.environ.get("WS_HARNESS_CRATE")), "ws_vec")
    t_build = time.time() - t0
    work = tempfile.mkdtemp(prefix=f"{prop}_ws_", dir=vlib.WORK)
    try:
        logs = []
        laws, enums = [], []
        n_tlc_scripts = n_random = 0
        if replay:
            out = os.path.join(work, "replay_log.ndjson")
            run_harness(bin_path, ["cases", os.path.abspath(replay), out])
            logs.append(("replay", out))
        else:
            # 1. the laws of the contract; the enumeration of the scripts (concurrently: TLC is mostly waiting to start)
            with concurrent.futures.ThreadPoolExecutor(max_workers=2) as ex:
                fl = ex.submit(lambda: [check_laws(c) for c in T["laws"]])
                fe = ex.submit(lambda: [enumerate_scripts(c) for c in T["enum"]])
                laws = fl.result()
                er = fe.result()
            scripts, seen = [], set()
            for sc, st in er:
                enums.append(st)
                for s in sc:
                    key = json.dumps(s, sort_keys=True)
                    if key not in seen:
                        seen.add(key)
                        scripts.append(s)
            for st in laws:
                log(f"[mc] {st['config']}: laws of the contract hold on {st['distinct_states']} distinct states "
                    f"({st['states_generated']} generated, {st['wall_s']}s)")
            for st in enums:
                log(f"[mc] {st['config']}: {st['scripts']} scripts up to {st['max_len']} steps ({st['wall_s']}s)")
            n_tlc_scripts = len(scripts)
            cpath = os.path.join(work, "cases.ndjson")
            with open(cpath, "w") as f:
                for s in scripts:
                    for role in ("server", "client"):
                        f.write(json.dumps(dict(role=role, steps=s), separators=(",", ":")) + "\n")
            # 2. the real adapter on the scripts and on seeded random ones
            out = os.path.join(work, "cases_log.ndjson")
            run_harness(bin_path, ["cases", cpath, out])
            logs.append(("tlc-scripts", out))
            for b in range(T["batches"]):
                out = os.path.join(work, f"random_{b}.ndjson")
                run_harness(bin_path, ["random", str(int(seed) * 1000003 + b), str(T["random"]), out])
                logs.append((f"random-{b}", out))
                n_random += T["random"]
        t_run = time.time() - t0
        # 3. TLC validates every logged line
        total_lines, total_scripts, tv_states, rejected, vstats = validate_logs(logs, work, T["chunk"])
        if not replay and vstats["per_log"].get("tlc-scripts") != 2 * n_tlc_scripts:
            raise ToolError(f"ws_vec logged {vstats['per_log'].get('tlc-scripts')} scripts for {2 * n_tlc_scripts} runs")
        for name, n in sorted(vstats["per_log"].items()):
            log(f"[trace] {name}: {n} scripts validated by TLC")
        outcome, nontrivial, samples = outcome_stats(logs, {"".join(x[0]) for v in rejected.values() for x in v})
        # 4. verdict
        known = {k.get("sig"): k for k in vlib.load_known()
                 if k.get("property") == prop and k.get("status") == "open" and str(k.get("sig", "")).startswith("ws:")}
        violations, known_met, rej_summary = [], [], {}
        for sig in sorted(rejected):
            items = sorted(rejected[sig], key=lambda x: (len(x[0]), x[1], "".join(x[0])))
            lines, at, exp, src = items[0]
            smallest = describe(lines, at)
            rej_summary[sig] = dict(scripts=len(items), smallest=smallest, expected=exp)
            if "ws:" + sig in known:
                known_met.append(sig)
                print(f"KNOWN-FINDING: property={prop} {known['ws:' + sig]['what']}", flush=True)
                continue
            note = [f"property {prop}, WsAdapter family (penguin-mux/src/ws.rs), signature {sig}: {len(items)} scripts "
                    f"rejected by TLC (spec/WsAdapterTrace.tla)",
                    f"smallest rejected script (source {src}); the line marked >> is the one the contract does not allow:"]
            note += ["  " + x for x in smallest]
            note.append("the contract (spec/WsAdapter.tla) in the state reached: " + json.dumps(exp, sort_keys=True))
            text = [json.dumps(case_of(x[0]), separators=(",", ":")) + "\n" for x in items[:MAX_REPLAY_SCRIPTS]]
            path = vlib.save_replay(prop, "ws_" + re.sub(r"[^A-Za-z0-9_]+", "_", sig), text, note="\n".join(note))
            violations.append((path, sig, len(items)))
            log("\n".join(note))
        wall = time.time() - t0
        coverage = dict(
            family="WsAdapter",
            scripts_from_tlc=n_tlc_scripts, script_runs_from_tlc=2 * n_tlc_scripts,
            random_scripts=n_random, random_script_runs=2 * n_random,
            scripts_validated=total_scripts, lines_validated=total_lines,
            scripts_rejected=vstats["rejected_scripts"],
            # the names tools/CONVENTIONS.md asks for in an evidence file
            traces_validated_against_impl=total_scripts - vstats["rejected_scripts"], evaluations=total_lines,
            distinct_outcomes=len(outcome), distinct_nontrivial=len(nontrivial),
            rule="a script run counts as nontrivial when TLC accepted the log it belongs to and the adapter delivered a "
                 "message or wrote a WebSocket message in it; distinct by role, steps and everything observed",
            states=sum(x["distinct_states"] for x in laws), transitions=sum(x["states_generated"] for x in laws),
            tlc_states_trace_validation=tv_states, tlc_validation_runs=vstats["tlc_runs"],
            model_checking_runs=laws, enumeration_runs=enums,
            observed_outcomes={"/".join(k): n for k, n in sorted(outcome.items())},
            rejected_by_signature=rej_summary, known_findings_met=known_met,
            samples=samples, wall_s=dict(build=round(t_build, 1), model_checking_and_harness=round(t_run - t_build, 1),
                                         validation=round(wall - t_run, 1), total=round(wall, 1)),
            explanation="TLC checks the laws of the WebSocket contract (spec/WsAdapter.tla via SpecLaws of "
                        "spec/MC_WsAdapter.tla) and enumerates every script over the step alphabet up to the configured "
                        "depth (SpecEnum); ws_vec runs each script, as server and as client, plus seeded random longer "
                        "scripts, on the real adapter of penguin-mux/src/ws.rs over an in-memory transport with a "
                        "hand-written RFC 6455 peer; TLC validates every logged line (spec/WsAdapterTrace.tla)",
        )
        return dict(violations=violations, coverage=coverage)
    finally:
        shutil.rmtree(work, ignore_errors=True)


def check(prop, tier, seed, replay):
    """Stand-alone use of the family (no evidence file: the property check that uses `leg` writes it)."""
    r = leg(prop, tier, seed, replay)
    c = r["coverage"]
    log(f"[ws] {c['scripts_from_tlc']} scripts from TLC and {c['random_scripts']} random scripts, each as server and as "
        f"client: {c['scripts_validated']} script runs / {c['lines_validated']} lines validated, "
        f"{c['distinct_outcomes']} distinct outcomes, {c['scripts_rejected']} rejected; wall {c['wall_s']}")
    if r["violations"]:
        for path, sig, n in r["violations"]:
            print(f"VIOLATION property={prop} replay={path}", flush=True)
        return 1
    log(f"{prop} (WsAdapter family) held on everything explored")
    return 0


if __name__ == "__main__":
    import argparse
    ap = argparse.ArgumentParser()
    ap.add_argument("tier", nargs="?", default="quick")
    ap.add_argument("--replay")
    ap.add_argument("--prop", default="C10")
    ap.add_argument("--seed", default=os.environ.get("VERIF_SEED", "1"))
    ap.add_argument("--coverage", action="store_true", help="print the coverage record as JSON")
    ap.add_argument("--validate-log", help="validate an existing ws_vec log with TLC (nothing is executed)")
    a = ap.parse_args()
    try:
        if a.validate_log:
            vlib.ensure_dirs()
            work = tempfile.mkdtemp(prefix="ws_log_", dir=vlib.WORK)
            try:
                nl, ns, _, rejected, _ = validate_logs([("log", os.path.abspath(a.validate_log))], work, 6000)
            finally:
                shutil.rmtree(work, ignore_errors=True)
            log(f"{ns} scripts / {nl} lines, {sum(len(v) for v in rejected.values())} scripts rejected")
            for sig, items in sorted(rejected.items()):
                lines, at, exp, _ = min(items, key=lambda x: (len(x[0]), x[1]))
                log(f"REJECTED signature {sig}: {len(items)} scripts; smallest:")
                log("\n".join("  " + x for x in describe(lines, at)))
                log("  the contract in the state reached: " + json.dumps(exp, sort_keys=True))
            sys.exit(1 if rejected else 0)
        if a.coverage:
            res = leg(a.prop, a.tier, int(a.seed), a.replay)
            print(json.dumps(res["coverage"], indent=1, sort_keys=True))
            for path, sig, n in res["violations"]:
                print(f"VIOLATION property={a.prop} replay={path}", flush=True)
            sys.exit(1 if res["violations"] else 0)
        sys.exit(check(a.prop, a.tier, int(a.seed), a.replay))
    except ToolError as e:
        print("TOOL ERROR:", e)
        sys.exit(2)
