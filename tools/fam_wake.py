#!/usr/bin/env python3
"""C12: WriterWake.tla (atomic-step model of the writer/credit/wake-up protocol, TLC) + loom executions of
the real code (hook penguin-mux/src/verif_wake.rs, feature verif-hooks) validated by TLC (WakeTrace.tla)."""
import json, os, re, shutil, subprocess, tempfile, time

import vlib
from vlib import log, ToolError

PROP = "C12"
LOOM_TARGET = os.path.join(vlib.WORK, "loom_target")


def _run_loom(out_path, preemptions):
    env = dict(os.environ, RUSTFLAGS="--cfg loom", CARGO_TARGET_DIR=LOOM_TARGET, VERIF_WAKE_OUT=out_path,
               CARGO_NET_OFFLINE="true")
    if preemptions:
        env["LOOM_MAX_PREEMPTIONS"] = str(preemptions)
    else:
        env.pop("LOOM_MAX_PREEMPTIONS", None)
    cmd = ["cargo", "test", "--offline", "-p", "penguin-mux", "--lib", "--features", "verif-hooks", "verif_wake",
           "--", "--test-threads=1"]
    t0 = time.time()
    rc, out = vlib.run(cmd, timeout=3000, cwd="/repo", env=env)
    m = re.search(r"test result: (\w+)\. (\d+) passed; (\d+) failed", out)
    if not m:
        log(out[-3000:])
        raise ToolError("the loom hook module did not build or run (feature verif-hooks of penguin-mux)")
    log(f"[loom] {m.group(2)} scenarios passed, {m.group(3)} failed, {time.time()-t0:.1f}s (LOOM_MAX_PREEMPTIONS={preemptions or 'unbounded'})")
    # a scenario that panics inside loom (deadlock, double panic) is data: reported as a violation below
    failed = re.findall(r"test verif_wake::(\w+) \.\.\. FAILED", out)
    return failed, out


def credit_executions(tier, work, lost_only=False):
    """For C03 (credit is never exceeded, for every schedule): the loom executions of the real writer/credit code whose
    history TLC rejects (WakeTrace.tla) AND in which the credit is not conserved (a frame without a unit of credit or a
    lost grant).  Returns (number of executions, [records])."""
    out = os.path.join(work, "wake_c03.ndjson")
    open(out, "w").close()
    failed, cargo_out = _run_loom(out, 3 if tier == "quick" else None)
    lines = [l for l in open(out) if l.strip()]
    if not lines:
        raise ToolError("the loom hook produced no executions")
    uniq = sorted(set(lines))
    up = os.path.join(work, "wake_c03_u.ndjson")
    open(up, "w").writelines(uniq)
    rv = vlib.validate_once("WakeTrace", "WakeTrace", up, timeout=900, raw=True)
    if '<<"LINES"' not in rv["out"]:
        log(rv["out"][-2500:])
        raise ToolError("WakeTrace did not run to the end")
    bad = [json.loads(m.group(1).encode().decode("unicode_escape"))[1] for m in re.finditer(r'<<"BAD", "(.*)">>', rv["out"])]

    def unconserved(rec):
        # first clause of WriterWakeDefs.Contract; lost_only (C04): a unit of credit disappeared (the writer will stall),
        # or the writer was left sleeping although it could proceed (last clause: lost wake-up)
        try:
            okn = list(rec["polls"]).count("ok") + (1 if rec["after"] == "ok" else 0)
            have, should = rec["credit_final"] + okn, rec["credit"] + str(rec["ops"]).count("a")
            if not lost_only:
                return have != should
            polls = list(rec["polls"])
            sleeping = bool(polls) and polls[-1] == "pending" and rec["after"] == "ok" and list(rec["woken"])[-1] < 1
            return have < should or sleeping
        except (KeyError, TypeError, IndexError):
            return True
    return len(lines), [r for r in bad if unconserved(r)]


def check(prop, tier, seed, replay):
    t0 = time.time()
    vlib.ensure_dirs()
    work = tempfile.mkdtemp(prefix="C12_", dir=vlib.WORK)
    try:
        # 1. design level: every interleaving of the atomic steps, all scenarios
        r = vlib.model_check("WriterWake", "MC_Wake_fixed", workers=4, timeout=600)
        if not r["ok"]:
            log(r["out"][-2500:])
            raise ToolError("WriterWake (fixed algorithm) violates the contract: triage the specification")
        if r["distinct"] < 500:
            raise ToolError("vacuous run: the atomic-step model explored too few states")
        rp = vlib.model_check("WriterWake", "MC_Wake_pinned", workers=4, timeout=600, coverage=False)
        if rp["ok"]:
            raise ToolError("self-test failed: TLC does not find the lost wake-up in the pinned algorithm")
        states, transitions = r["distinct"], r["states"]
        log(f"[mc] MC_Wake_fixed: {r['distinct']} distinct states, contract holds in every interleaving; "
            f"MC_Wake_pinned: violated as expected ({rp['violated']})")
        # 1b. the same protocol, with the internals of futures' AtomicWaker, on a view-based release/acquire memory model
        #     (spec/WriterWakeRA.tla): holds with the code's orderings and with every penguin-mux ordering weakened to Relaxed;
        #     self-tests: the pinned algorithm fails, and a "skip the wake unless a waiting flag is seen" variant fails under
        #     release/acquire although it passes under sequential consistency (so the memory model has teeth)
        ra_runs = []
        for cfg, must_hold in (("MC_WakeRA_fixed", True), ("MC_WakeRA_relaxed", True), ("MC_WakeRA_fixed_sc", True),
                               ("MC_WakeRA_pinned", False), ("MC_WakeRA_flagged", False), ("MC_WakeRA_flagged_sc", True)) + \
                (() if tier == "quick" else (("MC_WakeRA_fixed3", True), ("MC_WakeRA_relaxed3", True))):
            rr = vlib.model_check("WriterWakeRA", cfg, workers=4, timeout=600, coverage=False)
            if must_hold and not rr["ok"]:
                log(rr["out"][-2500:])
                raise ToolError(f"WriterWakeRA ({cfg}) violates {rr['violated']}: triage the specification")
            if not must_hold and (rr["ok"] or rr["violated"] != "ContractHolds"):
                raise ToolError(f"self-test failed: {cfg} must violate ContractHolds and does not ({rr.get('violated')})")
            if must_hold and rr["distinct"] < 2000:
                raise ToolError(f"vacuous run: {cfg} explored too few states")
            ra_runs.append(dict(config=cfg, distinct_states=rr["distinct"], states_generated=rr["states"],
                                verdict="holds" if rr["ok"] else "violated as it must be"))
        ra_fixed = next(x for x in ra_runs if x["config"] == "MC_WakeRA_fixed")
        ra_sc = next(x for x in ra_runs if x["config"] == "MC_WakeRA_fixed_sc")
        if ra_fixed["distinct_states"] <= ra_sc["distinct_states"]:
            raise ToolError("vacuous memory model: release/acquire explored no more states than sequential consistency")
        log("[mc] WriterWakeRA (release/acquire views, AtomicWaker internals): " +
            ", ".join(f"{x['config'][10:]}: {x['distinct_states']} {x['verdict']}" for x in ra_runs))
        states += sum(x["distinct_states"] for x in ra_runs if x["verdict"] == "holds")
        transitions += sum(x["states_generated"] for x in ra_runs if x["verdict"] == "holds")
        # 2. the real code under loom
        out = os.path.join(work, "wake.ndjson")
        open(out, "w").close()
        failed, cargo_out = _run_loom(out, 3 if tier == "quick" else None)
        lines = [l for l in open(out) if l.strip()]
        if not lines:
            raise ToolError("the loom hook produced no executions")
        uniq = sorted(set(lines))
        up = os.path.join(work, "wake_u.ndjson")
        open(up, "w").writelines(uniq)
        rv = vlib.validate_once("WakeTrace", "WakeTrace", up, timeout=900, raw=True)
        bad = [json.loads(m.group(1).encode().decode("unicode_escape")) for m in re.finditer(r'<<"BAD", "(.*)">>', rv["out"])]
        if '<<"LINES"' not in rv["out"]:
            log(rv["out"][-2500:])
            raise ToolError("WakeTrace did not run to the end")
        violations = []
        for b in bad:
            rec = b[1]
            p = vlib.save_replay(PROP, rec.get("sc", "x"), [json.dumps(rec) + "\n"],
                                 note="loom execution of the real code that violates the writer/credit contract (WriterWakeDefs.Contract)")
            violations.append((p, rec))
        for sc in failed:
            p = vlib.save_replay(PROP, "loomfail_" + sc, [json.dumps({"sc": sc, "loom": "FAILED"}) + "\n"], note=cargo_out[-3000:])
            violations.append((p, {"sc": sc, "loom": "scenario failed inside loom (panic / deadlock)"}))
        nontriv = len([l for l in uniq if '"pending"' in l])
        wall = time.time() - t0
        if not replay:
            vlib.write_evidence(PROP, tier, seed, dict(
                states=states, transitions=transitions, traces_validated_against_impl=len(lines) - sum(lines.count(json.dumps(b[1])) for b in bad),
                evaluations=len(lines), distinct_nontrivial=nontriv,
                rule="loom executions (interleavings of the real code at atomic-operation grain); distinct observable histories in which at least one poll had to wait",
                samples=[json.loads(x) for x in uniq[:4]], distinct_histories=len(uniq),
                weak_memory_model_runs=ra_runs,
                loom_max_preemptions=3 if tier == "quick" else "unbounded",
                explanation="WriterWake.tla: TLC explores every interleaving of the writer's and the task's atomic steps (spurious CAS failure included) for 8 scenarios "
                            "and checks the contract; the pinned algorithm is rejected (self-test). WriterWakeRA.tla: the same protocol including the atomic "
                            "operations inside futures' AtomicWaker on a view-based release/acquire + relaxed memory model (loads may read stale messages, RMWs read "
                            "the last one, release/acquire transfer views, plain accesses to the waker cell must be race free): contract and race freedom hold with the "
                            "code's orderings and with all of penguin-mux's orderings weakened to Relaxed; a flag-guarded wake passes under SC and fails under RA (self-test). The in-crate loom hook enumerates the interleavings of the REAL "
                            "poll_obtain_write_permission / acknowledge / disallow_write under loom's C11 model; every execution's history is validated by TLC against the same contract"),
                wall, len(violations), assumptions=[
                    "WriterWakeRA.tla covers the release/acquire + relaxed fragment (no SeqCst fences, no promises / load buffering); it is a design-level model: "
                    "the orderings written in the code are not observable in traces, the binding to the code is loom's exploration of the real functions",
                    "loom preemption bound 3 in the quick tier",
                    "AtomicWaker register/wake are atomic in WriterWake.tla and sequences of atomic operations (futures-core 0.3 algorithm) in WriterWakeRA.tla; "
                    "under loom the crate's shim substitutes loom's own AtomicWaker"])
        for p, rec in violations[:5]:
            log(f"contract violated by execution: {json.dumps(rec)}")
            print(f"VIOLATION property={PROP} replay={p}")
        if violations:
            return 1
        log(f"{PROP} held on everything explored: {len(lines)} loom executions, {len(uniq)} distinct histories ({wall:.0f}s)")
        return 0
    finally:
        shutil.rmtree(work, ignore_errors=True)
