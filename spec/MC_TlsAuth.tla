----------------------------- MODULE MC_TlsAuth -----------------------------
(***************************************************************************)
(* Case enumeration for property C17 (see TlsAuth.tla).                    *)
(*                                                                         *)
(* kind = "case":   a state is one cell of the matrix (72 initial states   *)
(*                  without successors); TLC prints one line               *)
(*                  <<"CASE", json>> with the cell, the set of outcomes    *)
(*                  the property allows and whether the server asks for a  *)
(*                  client certificate.                                    *)
(* kind = "script": the reload machine of TlsAuth.tla runs; `hist` is the  *)
(*                  sequence of operations so far, `obs` what each of them *)
(*                  must observe.  Every interleaving of at most MaxConn   *)
(*                  Connect, MaxReload Reload and MaxUse Use(c) is a       *)
(*                  state; the complete ones are printed as                *)
(*                  <<"SCRIPT", json>> (every shorter interleaving is a    *)
(*                  prefix of a complete one and is executed with it).     *)
(*                  `c` = [mtls |-> b]: the scripts run with (b) or        *)
(*                  without mutual TLS.                                    *)
(* kind = "real":   the same machine, for the runs through the real server *)
(*                  entry point (server_main + SIGUSR1): a connection is   *)
(*                  ConnectAs(cc) for every cc of ClientCerts (the client  *)
(*                  certificate under the configured CA, none, one of      *)
(*                  another CA), so that a handshake is also a PROBE of    *)
(*                  the server's client authentication before and after    *)
(*                  every reload.  hist[i].conn is the number the          *)
(*                  connection gets if the property admits it, 0 if the    *)
(*                  handshake must be refused.  Bounds RMaxConn /          *)
(*                  RMaxReload / RMaxUse; a script is complete when all    *)
(*                  connections and reloads happened and either all uses   *)
(*                  did or no connection was admitted (nothing to use);    *)
(*                  printed as <<"RSCRIPT", json>>.                        *)
(* kind = "rot":    duplex scripts with ROTATION of the client CA in place  *)
(*                  (mutual TLS): Rotate is a fourth operation, and a       *)
(*                  connection is ConnectAs(cc) for cc = no certificate or  *)
(*                  the client certificate of any generation of the CA that *)
(*                  exists (the retired ones, the one at the path now), so  *)
(*                  that a handshake probes WHICH generation is in force:   *)
(*                  before the rotation, between rotation and reload (the   *)
(*                  old one still), after the reload (the new one).  Bounds *)
(*                  RotConn / RotReload / RotRotate / RotUse; printed as    *)
(*                  <<"SCRIPT", json>> (hist[i] carries cc, and conn = 0    *)
(*                  for a handshake that must be refused).                  *)
(* kind = "rrot":   the same through the real server (rotate = overwrite    *)
(*                  the --tls-ca file, reload = SIGUSR1); bounds RRot*;     *)
(*                  printed as <<"RSCRIPT", json>>.                         *)
(* kind = "rfail":  real-server scripts with FAILED reloads (op "botch": the  *)
(*                  key file is unusable when SIGUSR1 arrives): every        *)
(*                  interleaving of FConn connections of the client that    *)
(*                  was set up for the server, FBotch failed reloads,       *)
(*                  FReload reloads and FUse uses, for c.mtls in FailMtls;  *)
(*                  printed as <<"RSCRIPT", json>>.                         *)
(* kind = "client": the client-side machine (c) of TlsAuth.tla: every       *)
(*                  interleaving of CliConn connections (the server's       *)
(*                  certificate issued by any generation of the roots CA    *)
(*                  that exists, or by another CA) and CliRotate            *)
(*                  replacements of the roots file in place; printed as     *)
(*                  <<"CSCRIPT", json>>.                                    *)
(* kind = "res":    duplex scripts of RETURNING CLIENTS THAT RESUME: every    *)
(*                  connection is ConnectReturning(cc): the client keeps its *)
(*                  TLS state for the whole script (one per certificate),    *)
(*                  offers the tickets it holds and keeps the ones it gets.  *)
(*                  c.mtls in ResMtls; with mutual TLS cc = the certificate  *)
(*                  of any generation of the CA that exists and Rotate is an *)
(*                  operation (ResRotate of them), without it cc = "none"    *)
(*                  and there is no rotation.  hist[i] carries keep = TRUE,  *)
(*                  obs[i] also `holds` (the client holds a ticket when it   *)
(*                  connects) and `mayResume` (one of them was issued by the *)
(*                  configuration in force: the handshake MAY be a           *)
(*                  resumption; otherwise it MUST be a full one).  Bounds    *)
(*                  ResConn / ResReload / ResRotate / ResUse; printed as     *)
(*                  <<"SCRIPT", json>>.                                      *)
(* kind = "rres":   the same through the real server; bounds RRes*, c.mtls   *)
(*                  in RResMtls; printed as <<"RSCRIPT", json>>.             *)
(* kind = "fca":    duplex scripts in which the client-CA BUNDLE is UNUSABLE  *)
(*                  when it is read (mutual TLS): op "botch" with cause =    *)
(*                  "ca" is a reload request while the file at the           *)
(*                  configured path yields no CA (TlsAuth!BotchedReloadCA;   *)
(*                  the next "reload" restores the bundle first), and a      *)
(*                  script may BEGIN with op "badstart" (the server is       *)
(*                  started on such a file, TlsAuth!BotchedStart).  A        *)
(*                  connection is ConnectAs(cc) for every cc of ClientCerts  *)
(*                  (no certificate, one of a foreign CA, the trusted one):  *)
(*                  a probe of the client authentication in force.  Bounds   *)
(*                  FConn / FBotch / FReload / FUse; printed as              *)
(*                  <<"SCRIPT", json>>.                                      *)
(* kind = "rfca":   the same through the real server (botch = overwrite the  *)
(*                  --tls-ca file with junk + SIGUSR1), without "badstart"   *)
(*                  and without uses; printed as <<"RSCRIPT", json>>.        *)
(* Extra \subseteq {"rot", "rrot", "rfail", "client", "res", "rres", "fca", *)
(* "rfca"} selects the last eight.                                         *)
(* On every state TLC checks Undisturbed, Fresh, ConfigKept, CAFollows,    *)
(* JudgedAsConfigured, TicketsOfThisConfiguration, Authenticated and       *)
(* ClientFollowsRoots.                                                     *)
(***************************************************************************)
EXTENDS TlsAuth, Json

CONSTANTS MaxConn, MaxReload, MaxUse, Mtls,
          RMaxConn, RMaxReload, RMaxUse, RealMtls,
          RotConn, RotReload, RotRotate, RotUse,
          RRotConn, RRotReload, RRotRotate, RRotUse,
          CliConn, CliRotate,
          FConn, FReload, FBotch, FUse, FailMtls,
          ResConn, ResReload, ResRotate, ResUse, ResMtls,
          RResConn, RResReload, RResRotate, RResUse, RResMtls,
          Extra

ASSUME Extra \subseteq {"rot", "rrot", "client", "rfail", "res", "rres", "fca", "rfca"}

VARIABLES kind, c, hist, obs

vars == <<kind, c, hist, obs, identityVersion, live, conns, wantCA, liveCA, wantGen, liveGen, dueGen, botched, tickets,
          rootsGen, rootsRead, cseen>>

Count(op) == Cardinality({i \in DOMAIN hist : hist[i].op = op})

Bound(op) ==
  CASE kind = "real"   -> (CASE op = "connect" -> RMaxConn [] op = "reload" -> RMaxReload [] op = "use" -> RMaxUse [] OTHER -> 0)
    [] kind = "rot"    -> (CASE op = "connect" -> RotConn [] op = "reload" -> RotReload [] op = "rotate" -> RotRotate [] op = "use" -> RotUse [] OTHER -> 0)
    [] kind = "rrot"   -> (CASE op = "connect" -> RRotConn [] op = "reload" -> RRotReload [] op = "rotate" -> RRotRotate [] op = "use" -> RRotUse [] OTHER -> 0)
    [] kind = "rfail"  -> (CASE op = "connect" -> FConn [] op = "reload" -> FReload [] op = "botch" -> FBotch [] op = "use" -> FUse [] OTHER -> 0)
    [] kind = "fca"    -> (CASE op = "connect" -> FConn [] op = "reload" -> FReload [] op = "botch" -> FBotch [] op = "use" -> FUse [] OTHER -> 0)
    [] kind = "rfca"   -> (CASE op = "connect" -> FConn [] op = "reload" -> FReload [] op = "botch" -> FBotch [] OTHER -> 0)
    [] kind = "client" -> (CASE op = "connect" -> CliConn [] op = "rotate" -> CliRotate [] OTHER -> 0)
    \* (no rotation without a client CA)
    [] kind = "res"    -> (CASE op = "connect" -> ResConn [] op = "reload" -> ResReload [] op = "use" -> ResUse
                            [] op = "rotate" -> (IF c.mtls THEN ResRotate ELSE 0) [] OTHER -> 0)
    [] kind = "rres"   -> (CASE op = "connect" -> RResConn [] op = "reload" -> RResReload [] op = "use" -> RResUse
                            [] op = "rotate" -> (IF c.mtls THEN RResRotate ELSE 0) [] OTHER -> 0)
    [] OTHER           -> (CASE op = "connect" -> MaxConn [] op = "reload" -> MaxReload [] op = "use" -> MaxUse [] OTHER -> 0)

Init ==
  /\ hist = <<>> /\ obs = <<>>
  /\ \/ kind = "case" /\ c \in Cases /\ MInitWith(c.serverClientCA)
     \/ kind = "script" /\ c \in [mtls : Mtls] /\ MInitWith(CAOf(c.mtls))
     \/ kind = "real" /\ c \in [mtls : RealMtls] /\ MInitWith(CAOf(c.mtls))
     \/ kind \in Extra \cap {"rot", "rrot"} /\ c = [mtls |-> TRUE] /\ MInitWith("configured")
     \/ kind \in Extra \cap {"client"} /\ c = [mtls |-> FALSE] /\ MInitWith("none")
     \/ kind \in Extra \cap {"rfail"} /\ c \in [mtls : FailMtls] /\ MInitWith(CAOf(c.mtls))
     \/ kind \in Extra \cap {"fca", "rfca"} /\ c = [mtls |-> TRUE] /\ MInitWith("configured")
     \/ kind \in Extra \cap {"res"} /\ c \in [mtls : ResMtls] /\ MInitWith(CAOf(c.mtls))
     \/ kind \in Extra \cap {"rres"} /\ c \in [mtls : RResMtls] /\ MInitWith(CAOf(c.mtls))

DoConnect ==
  /\ Count("connect") < Bound("connect")
  /\ Connect
  /\ hist' = Append(hist, [op |-> "connect", conn |-> Len(conns) + 1])
  /\ obs' = Append(obs, live)

\* the client presents cc; obs = what the property demands of this handshake
DoConnectAs(cc) ==
  /\ Count("connect") < Bound("connect")
  /\ ConnectAs(cc)
  /\ hist' = Append(hist, [op |-> "connect", conn |-> IF Admitted(cc) THEN Len(conns) + 1 ELSE 0, cc |-> cc])
  /\ obs' = Append(obs, [outcome |-> HandshakeOutcome(cc), identity |-> live])

\* a returning client presenting cc: it offers the tickets it holds and keeps the ones it gets; obs = what the property
\* demands of this handshake (the outcome does not depend on the offer), whether the client holds a ticket, and whether the
\* property allows a resumption (a ticket of the configuration in force is among them)
DoConnectReturning(cc) ==
  /\ Count("connect") < Bound("connect")
  /\ ConnectReturning(cc)
  /\ hist' = Append(hist, [op |-> "connect", conn |-> IF AdmittedWith(cc, Held(cc)) THEN Len(conns) + 1 ELSE 0, cc |-> cc,
                           keep |-> TRUE])
  /\ obs' = Append(obs, [outcome |-> OutcomeWith(cc, Held(cc)), identity |-> live, holds |-> Held(cc) # {},
                         mayResume |-> Usable(Held(cc)) # {}])

DoReload ==
  /\ Count("reload") < Bound("reload")
  /\ Reload
  /\ hist' = Append(hist, [op |-> "reload", conn |-> 0])
  /\ obs' = Append(obs, identityVersion + 1)

\* the client CA bundle is replaced in place; obs = the generation at the path afterwards
DoRotate ==
  /\ Count("rotate") < Bound("rotate")
  /\ Rotate
  /\ hist' = Append(hist, [op |-> "rotate", conn |-> 0])
  /\ obs' = Append(obs, wantGen + 1)

\* a reload request that fails; obs = the identity that keeps serving
DoBotch ==
  /\ Count("botch") < Bound("botch")
  /\ BotchedReload
  /\ hist' = Append(hist, [op |-> "botch", conn |-> 0])
  /\ obs' = Append(obs, live)

\* a reload request while the client-CA bundle at the configured path is unusable; obs = the identity that keeps serving
DoBotchCA ==
  /\ Count("botch") < Bound("botch")
  /\ BotchedReloadCA
  /\ hist' = Append(hist, [op |-> "botch", conn |-> 0, cause |-> "ca"])
  /\ obs' = Append(obs, live)

\* the script begins with an attempt to START the server on an unusable client-CA bundle
DoBadStart ==
  /\ hist = <<>>
  /\ BotchedStart
  /\ hist' = Append(hist, [op |-> "badstart", conn |-> 0, cause |-> "ca"])
  /\ obs' = Append(obs, live)

DoUse(x) ==
  /\ Count("use") < Bound("use")
  /\ Use(x)
  /\ hist' = Append(hist, [op |-> "use", conn |-> x])
  /\ obs' = Append(obs, IF Works(x) THEN Sees(x) ELSE 0 - 1)

\* what the clients of the rotation scripts present: nothing, or the certificate of a generation of the CA
RotCerts == {"none"} \cup GenNames(wantGen)

\* what the returning clients present: with mutual TLS the certificate of a generation of the CA, without it nothing
ResCerts == IF wantCA = "configured" THEN GenNames(wantGen) ELSE {"none"}

\* client side
DoCConnect(srv) ==
  /\ Count("connect") < Bound("connect")
  /\ CConnect(srv)
  /\ hist' = Append(hist, [op |-> "connect", srv |-> srv])
  /\ obs' = Append(obs, [outcome |-> CConnectOutcome(srv), roots |-> rootsGen])

DoCRotate ==
  /\ Count("rotate") < Bound("rotate")
  /\ CRotate
  /\ hist' = Append(hist, [op |-> "rotate", srv |-> ""])
  /\ obs' = Append(obs, rootsGen + 1)

Next ==
  /\ UNCHANGED <<kind, c>>
  /\ \/ kind = "script" /\ (DoConnect \/ DoReload \/ \E x \in DOMAIN conns : DoUse(x))
     \/ kind = "real" /\ ((\E cc \in ClientCerts : DoConnectAs(cc)) \/ DoReload \/ \E x \in DOMAIN conns : DoUse(x))
     \/ kind \in {"rot", "rrot"} /\ ((\E cc \in RotCerts : DoConnectAs(cc)) \/ DoReload \/ DoRotate
                                       \/ \E x \in DOMAIN conns : DoUse(x))
     \/ kind = "rfail" /\ (DoConnectAs(RightCert) \/ DoReload \/ DoBotch \/ \E x \in DOMAIN conns : DoUse(x))
     \/ kind \in {"fca", "rfca"} /\ ((\E cc \in ClientCerts : DoConnectAs(cc)) \/ DoReload \/ DoBotchCA
                                       \/ (kind = "fca" /\ DoBadStart) \/ \E x \in DOMAIN conns : DoUse(x))
     \/ kind = "client" /\ ((\E srv \in CPresentable : DoCConnect(srv)) \/ DoCRotate)
     \/ kind \in {"res", "rres"} /\ ((\E cc \in ResCerts : DoConnectReturning(cc)) \/ DoReload \/ DoRotate
                                       \/ \E x \in DOMAIN conns : DoUse(x))

Spec == Init /\ [][Next]_vars

Complete ==
  /\ Count("connect") = Bound("connect") /\ Count("reload") = Bound("reload") /\ Count("rotate") = Bound("rotate")
  /\ Count("botch") = Bound("botch")
  /\ Count("use") = Bound("use") \/ (kind \in {"real", "rot", "rrot", "rfail", "res", "rres", "fca", "rfca"} /\ conns = <<>>)

TypeOK ==
  /\ MTypeOK
  /\ kind \in {"case", "script", "real", "rot", "rrot", "rfail", "client", "res", "rres", "fca", "rfca"}
  /\ kind = "case" => c \in Cases /\ hist = <<>> /\ Expected(c) \subseteq Outcomes
  /\ Len(obs) = Len(hist)

Emit ==
  CASE kind = "case" ->
         PrintT(<<"CASE", ToJson([case |-> c, exp |-> Expected(c), asks |-> ServerAsksForCert(c)])>>)
    [] kind \in {"script", "rot", "res", "fca"} /\ Complete ->
         PrintT(<<"SCRIPT", ToJson([mtls |-> c.mtls, ops |-> hist, exp |-> obs])>>)
    [] kind \in {"real", "rrot", "rfail", "rres", "rfca"} /\ Complete ->
         PrintT(<<"RSCRIPT", ToJson([mtls |-> c.mtls, ops |-> hist, exp |-> obs])>>)
    [] kind = "client" /\ Complete ->
         PrintT(<<"CSCRIPT", ToJson([ops |-> hist, exp |-> obs])>>)
    [] OTHER -> TRUE
=============================================================================
