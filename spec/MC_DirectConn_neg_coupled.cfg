\* C01: negative control: a network with the fault `coupled` (no delivery against a blocked direction) must violate Inv_Independent
SPECIFICATION Spec
CONSTANTS
  MaxW = 1
  Sizes = {0, 2}
  Fault = "coupled"
  Proto = "tcp"
  Gen = FALSE
  MaxK = 1
INVARIANTS Inv_Independent
