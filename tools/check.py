#!/usr/bin/env python3
"""Entry point of every registered check:   check.py <property> <quick|thorough> [--replay <path>]

Exit codes: 0 held (possibly with KNOWN-FINDING lines), 1 with `VIOLATION property=<id> replay=<path>`,
2 tool error / timeout (never reported as a violation)."""
import json, os, sys, time, traceback

sys.path.insert(0, os.path.dirname(os.path.abspath(__file__)))
import vlib
from vlib import log, ToolError


def main():
    if len(sys.argv) < 3:
        print(__doc__)
        return 2
    prop, tier = sys.argv[1], sys.argv[2]
    tier = os.environ.get("VERIF_TIER", tier) if tier not in ("quick", "thorough") else tier
    replay = None
    if "--replay" in sys.argv:
        replay = sys.argv[sys.argv.index("--replay") + 1]
    seed = int(os.environ.get("VERIF_SEED", "1") or "1")
    vlib.ensure_dirs()
    try:
        import families
        fam = families.FAMILY.get(prop)
        if fam is None:
            log(f"no check registered for {prop}")
            return 2
        return fam(prop, tier, seed, replay)
    except ToolError as e:
        log(f"TOOL-ERROR: {e}")
        return 2
    except Exception:
        traceback.print_exc()
        return 2


if __name__ == "__main__":
    sys.exit(main())
