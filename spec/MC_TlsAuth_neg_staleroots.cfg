\* C17 negative control: a client that keeps the roots it read first although the roots file was replaced in place
\* ("staleroots"); TLC must find ClientFollowsRoots violated
SPECIFICATION Spec
CONSTANTS
  Mode = "staleroots"
  MaxConn = 2
  MaxReload = 2
  MaxUse = 2
  Mtls = {}
  RMaxConn = 2
  RMaxReload = 1
  RMaxUse = 1
  RealMtls = {}
  RotConn = 2
  RotReload = 1
  RotRotate = 1
  RotUse = 1
  RRotConn = 2
  RRotReload = 1
  RRotRotate = 1
  RRotUse = 1
  CliConn = 2
  CliRotate = 1
  FConn = 2
  FReload = 1
  FBotch = 1
  FUse = 1
  FailMtls = {}
  ResConn = 0
  ResReload = 0
  ResRotate = 0
  ResUse = 0
  ResMtls = {}
  RResConn = 0
  RResReload = 0
  RResRotate = 0
  RResUse = 0
  RResMtls = {}
  Extra = {"client"}
INVARIANTS TypeOK ClientFollowsRoots
CHECK_DEADLOCK FALSE
