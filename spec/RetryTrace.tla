----------------------------- MODULE RetryTrace -----------------------------
(***************************************************************************)
(* C19, part B: validates the ndjson log of harness_app/src/bin/           *)
(* retry_sim.rs (the real client against a scripted fake server, real      *)
(* time) against ClientRetry.tla.  A log is a batch of traces, each        *)
(* starting with a `reset` line that carries the script and the            *)
(* parameters.                                                             *)
(*                                                                         *)
(* Every logged line is matched by an action of ClientRetry with the       *)
(* logged fields bound; what the log cannot show (the moment the client    *)
(* notices a failure, wakes up, the attempts refused by the operating      *)
(* system after `down`) are steps that consume no line.  Counts and order  *)
(* are exact.  Times (ms):                                                 *)
(*   an attempt / the final result comes no earlier than the prescribed    *)
(*   delay (sum of delays, when attempts were unobservable) after the      *)
(*   base event of the previous step -- exact up to Gran = 5 ms: the       *)
(*   driver stamps a server action BEFORE performing it and an arrival     *)
(*   AFTER observing it, a sleep cannot end early; for a stalled handshake *)
(*   the base is the arrival, which the server sees shortly AFTER the      *)
(*   client started its timer (AcceptSlack = 250 ms);                      *)
(*   and no later than delay + handshake_timeout + 1500 ms (generous).     *)
(* base events: refuse/rst/bad/close_*: the server's action; stall: the    *)
(* arrival (+ handshake_timeout); mute: the arrival, or the local          *)
(* connection if none was pending (+ channel_timeout).                     *)
(*                                                                         *)
(* Acceptance: POSTCONDITION Accepted (idiom of MuxTrace.tla); on a        *)
(* rejection the unmatched line, the specification's state and a stable    *)
(* signature of the disagreement (SIG) are printed.                        *)
(***************************************************************************)
EXTENDS ClientRetry, Json, IOUtils

Rec == ndJsonDeserialize(IOEnv.TRACE)

VARIABLES l,    \* next line
          x     \* bookkeeping of the walk (times, position in the script)

tvars == <<cvars, l, x>>

StepOf(s) == [beh |-> s.beh, d |-> s.d, open |-> s.open]
ParamsOf(r) == [mrc |-> r.script.mrc, mri |-> r.script.mri, hs |-> r.script.hs, ct |-> r.script.ct]
DownStep == [beh |-> "down", d |-> 0, open |-> FALSE]

XInit(r) ==
  [steps |-> [j \in 1 .. Len(r.script.steps) |-> StepOf(r.script.steps[j])],
   i |-> 0,                \* steps begun
   base |-> 0, baseBeh |-> "start",
   acted |-> FALSE, didOpen |-> FALSE, attT |-> 0, muteBase |-> -1,
   gb |-> [n |-> 0, base |-> 0, beh |-> "none"],      \* stalled / mute connection whose end may be reported
   noAtt |-> FALSE, echoN |-> 0, sect |-> "run"]

Init == /\ l = 2
        /\ Rec[1].ev = "reset"
        /\ CInit(ParamsOf(Rec[1]))
        /\ x = XInit(Rec[1])
        /\ TLCSet(1, 2) /\ TLCSet(2, [none |-> TRUE])

R == Rec[l]
Is(ev) == l <= Len(Rec) /\ R.ev = ev /\ l' = l + 1
NextIs(evs) == l <= Len(Rec) /\ R.ev \in evs
OpenDone == cur.open => x.didOpen

InWindow(t) ==
  /\ t - x.base >= GapMin(x.baseBeh, p, acc)
  /\ t - x.base <= GapMax(x.baseBeh, p, acc) + Late * (att - x.i)

(* ---------------- lines ---------------- *)
TReset ==
  /\ Is("reset") /\ x.sect = "done"
  /\ p' = ParamsOf(R) /\ phase' = "connecting" /\ k' = 0 /\ delay' = 0 /\ acc' = 0 /\ att' = 0 /\ cur' = NoStep
  /\ result' = "none" /\ srvDown' = FALSE /\ opened' = 0 /\ pending' = {} /\ served' = {} /\ hist' = <<>>
  /\ x' = XInit(R)

TAttempt ==
  /\ Is("attempt") /\ x.sect = "run"
  /\ x.i < Len(x.steps)
  /\ R.n = x.i + 1 /\ R.beh = x.steps[x.i + 1].beh /\ R.beh # "down"
  /\ InWindow(R.t)
  /\ Attempt(x.steps[x.i + 1])
  /\ x' = [x EXCEPT !.i = @ + 1, !.attT = R.t, !.acted = FALSE, !.didOpen = FALSE, !.muteBase = -1, !.noAtt = FALSE]

TDown ==
  /\ Is("down") /\ x.sect = "run"
  /\ x.i < Len(x.steps) /\ R.n = x.i + 1 /\ x.steps[x.i + 1].beh = "down"
  /\ \/ Attempt(x.steps[x.i + 1])
     \/ DownUnnoticed(x.steps[x.i + 1])        \* pinned mode
  /\ x' = [x EXCEPT !.i = @ + 1, !.acted = FALSE, !.didOpen = FALSE]

TAct ==
  /\ Is("act") /\ R.n = x.i /\ x.sect = "run"
  /\ \/ /\ phase = "trying" /\ cur.beh \in {"refuse", "rst", "bad"} /\ ~x.acted
        /\ R.what = (CASE cur.beh = "refuse" -> "fin" [] cur.beh = "rst" -> "rst" [] OTHER -> "http404")
        /\ R.t >= x.attT
        /\ x' = [x EXCEPT !.acted = TRUE, !.base = R.t, !.baseBeh = "refuse"]
        /\ UNCHANGED cvars
     \/ /\ phase = "up" /\ cur.beh \in {"close_orderly", "close_abrupt", "drop_unserved"} /\ OpenDone
        /\ R.what = (IF cur.beh = "close_orderly" THEN "ws_close" ELSE "tcp_drop")
        /\ R.t >= x.attT + cur.d
        /\ Lose
        /\ x' = [x EXCEPT !.acted = TRUE, !.base = R.t, !.baseBeh = "refuse"]

TClosed ==   \* the server's connection task finished the closing handshake: information only
  /\ Is("closed") /\ R.n = x.i /\ cur.beh = "close_orderly" /\ x.acted
  /\ UNCHANGED <<cvars, x>>

TUp ==
  /\ Is("up") /\ R.n = x.i /\ x.sect = "run"
  /\ R.t >= x.attT
  /\ Up
  /\ x' = [x EXCEPT !.muteBase = IF cur.beh = "mute" /\ pending # {} THEN x.attT ELSE -1]

TGone ==
  /\ Is("gone") /\ R.n = x.gb.n
  /\ R.t - x.gb.base >= Own(x.gb.beh, p) - Slack(x.gb.beh)
  /\ R.t - x.gb.base <= Own(x.gb.beh, p) + p.hs + Late
  /\ x' = [x EXCEPT !.gb = [n |-> 0, base |-> 0, beh |-> "none"]]
  /\ UNCHANGED cvars

TLocalOpen ==
  /\ Is("local_open") /\ x.sect = "run"
  /\ R.id = opened + 1
  /\ R.ok = TRUE                 \* ListenerAlive: the listener accepts while the client runs
  /\ R.t0 <= R.t
  /\ \/ /\ ~R.nudge /\ R.n = x.i /\ cur.open /\ ~x.didOpen
        /\ \/ phase = "trying" /\ cur.beh \in Refusals /\ (cur.beh \in {"refuse", "rst"} => x.acted)
           \/ phase = "up"
           \/ phase = "zombie" /\ srvDown       \* pinned mode: this is what makes the client notice
        /\ LocalOpen
        /\ x' = [x EXCEPT !.didOpen = TRUE,
                          !.muteBase = IF cur.beh = "mute" /\ phase = "up" /\ x.muteBase = -1 THEN R.t0 ELSE @,
                          !.base = IF phase = "zombie" THEN R.t0 ELSE @,
                          !.baseBeh = IF phase = "zombie" THEN "refuse" ELSE @]
     \/ /\ R.nudge /\ phase = "zombie" /\ x.noAtt     \* pinned mode: what brings the client back
        /\ LocalOpen
        /\ x' = [x EXCEPT !.base = R.t0, !.baseBeh = "refuse"]

TNoAttempt ==    \* never matched by the property; the pinned model sits on the dead connection
  /\ Is("no_attempt") /\ x.sect = "run"
  /\ phase = "zombie" /\ ~x.noAtt /\ ~R.client_ended /\ R.after = "close_orderly"
  /\ x' = [x EXCEPT !.noAtt = TRUE]
  /\ UNCHANGED cvars

ScriptDone ==
  /\ x.i = Len(x.steps)
  /\ \/ phase = "ended"
     \/ phase = "up" /\ cur.beh = "healthy" /\ OpenDone
     \/ srvDown /\ p.mrc = 0 /\ phase = "waiting" /\ OpenDone
     \/ srvDown /\ phase = "zombie" /\ OpenDone         \* pinned mode: the client never noticed

TEcho ==
  /\ Is("local_echo") /\ ScriptDone
  /\ R.id = x.echoN + 1 /\ R.id <= opened
  /\ R.ok = (R.id \in served)            \* NoLostRequest, and no echo out of nowhere
  /\ x' = [x EXCEPT !.echoN = @ + 1, !.sect = "end"]
  /\ UNCHANGED cvars

Errors == {"RemoteHandlerExited", "InvalidDomainName", "Tungstenite", "TcpConnect", "Tls", "Mux",
           "HandshakeTimeout", "StreamRequestTimeout", "ServerDisconnected", "Other"}

TResult ==
  /\ Is("result") /\ ScriptDone /\ x.echoN = opened
  /\ CASE result = "MaxRetryCountReached" -> R.res = "MaxRetryCountReached" /\ InWindow(R.t)
       [] result = "Fatal" -> R.res \in Errors /\ InWindow(R.t)      \* at once: no delay, no retry
       [] OTHER -> R.res = "running"
  /\ x' = [x EXCEPT !.sect = "done"]
  /\ UNCHANGED cvars

(* ---------------- steps that consume no line ---------------- *)
SFail ==
  /\ x.sect = "run" /\ OpenDone
  /\ cur.beh \in {"refuse", "rst"} => x.acted
  /\ FailTry
  /\ x' = IF cur.beh = "stall"
          THEN [x EXCEPT !.base = x.attT, !.baseBeh = "stall", !.gb = [n |-> x.i, base |-> x.attT, beh |-> "stall"]]
          ELSE x
  /\ UNCHANGED l

SFatal == /\ x.sect = "run" /\ x.acted /\ Fatal /\ UNCHANGED <<l, x>>

SLoseMute ==
  /\ x.sect = "run" /\ phase = "up" /\ cur.beh = "mute" /\ OpenDone /\ x.muteBase # -1
  /\ Lose
  /\ x' = [x EXCEPT !.base = x.muteBase, !.baseBeh = "mute", !.gb = [n |-> x.i, base |-> x.muteBase, beh |-> "mute"]]
  /\ UNCHANGED l

SWake ==
  /\ x.sect = "run"
  /\ \/ NextIs({"attempt", "down"}) /\ ~srvDown
     \/ srvDown /\ p.mrc # 0
  /\ Wake /\ UNCHANGED <<l, x>>

SDownAgain ==
  /\ x.sect = "run" /\ srvDown /\ p.mrc # 0 /\ x.i = Len(x.steps)
  /\ Attempt(DownStep) /\ UNCHANGED <<l, x>>

Next ==
  \/ TReset \/ TAttempt \/ TDown \/ TAct \/ TClosed \/ TUp \/ TGone \/ TLocalOpen \/ TNoAttempt \/ TEcho \/ TResult
  \/ SFail \/ SFatal \/ SLoseMute \/ SWake \/ SDownAgain

Spec == Init /\ [][Next]_tvars

(* the clauses over the history hold along the matched behaviour as well *)
Clauses == DelaySequence /\ ResetAfterSuccess /\ GiveUpExactly /\ NonRetryableEndsAtOnce /\ NoLostRequest

(* ---------------- progress register, diagnosis ---------------- *)
View == [phase |-> phase, k |-> k, delay |-> delay, acc |-> acc, att |-> att, cur |-> cur, result |-> result,
         srvDown |-> srvDown, opened |-> opened, pending |-> pending, served |-> served, p |-> p,
         i |-> x.i, nsteps |-> Len(x.steps), base |-> x.base, baseBeh |-> x.baseBeh, sect |-> x.sect,
         lo |-> x.base + GapMin(x.baseBeh, p, acc), hi |-> x.base + GapMax(x.baseBeh, p, acc) + Late * (att - x.i)]

Track == IF TLCGet(1) <= l THEN TLCSet(1, l) /\ TLCSet(2, View) ELSE TRUE

Sig(r, s) ==
  CASE r.ev = "no_attempt" ->
         IF r.client_ended THEN "client_ended_early"
         ELSE IF r.after = "close_orderly" THEN "orderly_close_no_reconnect"
         ELSE "no_reconnect_after_" \o r.after
    [] r.ev = "attempt" ->
         IF r.beh = "extra" THEN (IF s.i = s.nsteps /\ s.result = "Fatal" THEN "retry_after_nonretryable_error"
                                  ELSE IF s.i = s.nsteps /\ s.result # "none" THEN "retry_after_giving_up"
                                  ELSE IF s.i = s.nsteps THEN "reconnect_while_connected" ELSE "unexpected_attempt")
         ELSE IF s.phase \in {"waiting", "connecting"} /\ r.t < s.lo THEN "attempt_too_early"
         ELSE IF s.phase \in {"waiting", "connecting"} /\ r.t > s.hi THEN "attempt_too_late"
         ELSE IF s.phase = "ended" THEN "retry_after_giving_up"
         ELSE "unexpected_attempt"
    [] r.ev = "result" ->
         IF r.res = "running" /\ s.result = "MaxRetryCountReached" THEN "no_give_up"
         ELSE IF r.res = "running" /\ s.result = "Fatal" THEN "nonretryable_not_fatal"
         ELSE IF r.res = "MaxRetryCountReached" /\ s.result = "none" THEN "gave_up_early"
         ELSE IF r.res = "panic" THEN "client_panic"
         ELSE IF r.res = "MaxRetryCountReached" /\ s.result = "MaxRetryCountReached" /\ r.t < s.lo THEN "gave_up_too_soon"
         ELSE IF r.res # "running" /\ s.result = "none" THEN "client_ended_early"
         ELSE "wrong_result"
    [] r.ev = "local_open" -> IF ~r.ok THEN "listener_down" ELSE "unexpected_local_open"
    [] r.ev = "local_echo" -> IF ~r.ok /\ r.id \in s.served THEN "lost_request" ELSE "unexpected_echo"
    [] r.ev = "gone" -> "handshake_or_channel_timeout_not_honoured"
    [] r.ev = "hang" -> "hang"
    [] r.ev = "up_failed" -> "handshake_failed"
    [] OTHER -> "other:" \o r.ev

Accepted ==
  \/ /\ TLCGet(1) = Len(Rec) + 1
     /\ PrintT(<<"ACCEPTED lines", Len(Rec)>>)
  \/ /\ PrintT(<<"REJECTED at line", TLCGet(1), "of", Len(Rec)>>)
     /\ TLCGet(1) <= Len(Rec) =>
          /\ PrintT(<<"UNMATCHED", ToJson(Rec[TLCGet(1)])>>)
          /\ PrintT(<<"EXPECTED", ToJson([sig |-> Sig(Rec[TLCGet(1)], TLCGet(2))])>>)
     /\ PrintT(<<"LASTSTATE", ToJson(TLCGet(2))>>)
     /\ FALSE
=============================================================================
