#!/usr/bin/env python3
"""C18: SOCKS4/4a/5 messages are parsed and produced exactly per the RFCs.

spec/Socks.tla        the grammar (parsers and builders), written from the protocol documents
spec/MC_Socks.tla     TLC enumerates a bounded-exhaustive set of cases (every truncation of every seed) and
                      checks the laws of the grammar; one `CASE` line per distinct state
harness socks_vec     executes the cases (and seeded random ones) on the real penguin_socks::{v4,v5}
spec/SocksTrace.tla   TLC validates every logged line; unmatched lines come back with a signature

A rejected line whose signature is an `open` entry of KNOWN_FINDINGS.json (`"property":"C18","sig":...`) is
printed as KNOWN-FINDING and does not fail the check; any other signature is a VIOLATION.
"""
import collections, json, os, re, shutil, sys, tempfile, time

import vlib
from vlib import log, ToolError

TIERS = {
    # model-checking configuration, random cases per batch, number of batches
    "quick": dict(cfg="MC_Socks_q", random=3000, batches=1),
    "thorough": dict(cfg="MC_Socks", random=100000, batches=8),
}
PARSE_FNS = ("v5_request", "v5_methods", "v4_request", "udp_parse")
BUILD_FNS = ("udp_relay_response", "v5_reply", "v5_reply_unspec", "v5_method", "v4_reply")
CASE_RE = re.compile(r'^<<"CASE", "(.*)">>$')
BAD_RE = re.compile(r'^<<"BAD", (\d+), "([^"]*)", "(.*)">>$')
MAX_REPLAY_LINES = 40


def _unq(s):
    return json.loads(s.encode().decode("unicode_escape"))


def hexs(b):
    return " ".join(f"{x:02x}" for x in b)


def enumerate_cases(cfg):
    """The model-checking run: returns (cases, stats)."""
    r = vlib.model_check("MC_Socks", cfg, workers=1, timeout=1500, coverage=False)
    if not r["ok"]:
        log(r["out"][-3000:])
        raise ToolError(f"the grammar violates its own law {r['violated']} in {cfg} (triage spec/Socks.tla)")
    cases = []
    for line in r["out"].split("\n"):
        m = CASE_RE.match(line.strip())
        if m:
            cases.append(_unq(m.group(1)))
    if len(cases) != r["distinct"]:
        raise ToolError(f"{len(cases)} CASE lines for {r['distinct']} distinct states")
    by = collections.Counter()
    for c in cases:
        k = c["case"]
        by[(k["fn"], c["exp"].get("st", "build"))] += 1
    # vacuity: every reader with every outcome class, every writer
    need = [("v5_request", s) for s in ("ok", "needmore", "err", "undef")] + \
           [("v4_request", s) for s in ("ok", "needmore", "undef")] + \
           [("v5_methods", s) for s in ("ok", "needmore")] + \
           [("udp_parse", s) for s in ("ok", "err")] + [(f, "build") for f in BUILD_FNS]
    for n in need:
        if by[n] == 0:
            raise ToolError(f"vacuous enumeration: no case {n}")
    long_dom = [c for c in cases if c["exp"].get("st") == "ok" and c["exp"]["atyp"] == 3 and len(c["exp"]["addr"]) == 255]
    if not long_dom:
        raise ToolError("vacuous enumeration: no 255-octet domain name")
    return cases, dict(distinct=r["distinct"], generated=r["states"], wall=r["wall"], by=by)


def run_harness(bin_path, args):
    rc, o = vlib.run([bin_path] + args, timeout=1200)
    if rc != 0:
        log(o[-2000:])
        raise ToolError("socks_vec failed: " + " ".join(args[:2]))


def read_lines(path):
    with open(path) as f:
        return f.readlines()


def validate(path):
    """One TLC run over a log. Returns (n_lines, bad) with bad = [(line_no, sig, expected)]."""
    r = vlib.validate_once("SocksTrace", "SocksTrace_collect", path, timeout=1500, xmx="8g")
    if r["accepted"]:
        m = re.search(r'<<"ACCEPTED lines", (\d+)>>', r["out"])
        return (int(m.group(1)) if m else 0), [], r
    bad = []
    for line in r["out"].split("\n"):
        m = BAD_RE.match(line.strip())
        if m:
            try:
                exp = _unq(m.group(3))
            except Exception:
                exp = None
            bad.append((int(m.group(1)), m.group(2), exp))
    m = re.search(r'<<"REJECTED at line", (\d+), "of", (\d+)>>', r["out"])
    total = int(m.group(2)) if m else 0
    mc = re.search(r'<<"BADCOUNT", (\d+)>>', r["out"])
    if not bad or not mc or int(mc.group(1)) != len(bad):
        # the walk stopped before the end without an unmatched line being recorded: not a verdict
        log(r["out"][-3000:])
        raise ToolError("trace validation ended without a verdict for " + path)
    return total, bad, r


def describe(rec, exp):
    if rec.get("ev") == "build":
        args = {k: v for k, v in rec.items() if k not in ("ev", "fn", "res", "out", "src")}
        want = " | ".join(hexs(x) for x in (exp or {}).get("out", []))
        return (f"{rec['fn']}({json.dumps(args, sort_keys=True)}) -> {rec['res']} [{hexs(rec.get('out', []))}]"
                f"   grammar: [{want}]")
    got = rec.get("res")
    if got == "ok":
        got = (f"ok cmd={rec['cmd']} addr={bytes(rec['addr'])!r} port={rec['port']} data=[{hexs(rec['data'])}] "
               f"consumed={rec['consumed']}")
    want = None
    if exp:
        want = f"{exp.get('st')} -> {'/'.join(sorted(exp.get('res', [])))}"
        if exp.get("st") == "ok":
            want += (f" cmd={exp['cmd']} atyp={exp['atyp']} addr=[{hexs(exp['addr'])}] port={exp['port']} "
                     f"data=[{hexs(exp['data'])}] consumed={exp['consumed']}")
        elif exp.get("why"):
            want += f" ({exp['why']})"
    return (f"{rec['fn']} mode={rec.get('mode')} chunk={rec.get('chunk')} skip={rec.get('skip')} "
            f"input=[{hexs(rec.get('input', []))}] written=[{hexs(rec.get('written', []))}] -> {got}   grammar: {want}")


def size_of(rec):
    # smallest first; among equals the plainest (CONNECT, literal IP address) for a readable report
    n = len(rec.get("input", [])) + len(rec.get("payload", [])) + (len(rec.get("addr", [])) if rec.get("ev") == "build" else 0)
    return (n, rec.get("cmd", 1) != 1, rec.get("input", [0] * 5)[4:5] == [0], json.dumps(rec, sort_keys=True))


def check(prop, tier, seed, replay):
    if tier not in TIERS:
        raise ToolError(f"unknown tier {tier}")
    T = TIERS[tier]
    t0 = time.time()
    bin_path = os.path.join(vlib.build_harness(["socks_vec"]), "socks_vec")
    work = tempfile.mkdtemp(prefix=f"{prop}_", dir=vlib.WORK)
    try:
        logs = []  # (name, path)
        mc = None
        cases = []
        if replay:
            out = os.path.join(work, "replay_log.ndjson")
            run_harness(bin_path, ["cases", os.path.abspath(replay), out])
            logs.append(("replay", out))
        else:
            # 1. model checking: laws of the grammar + enumeration of the cases
            cases, mc = enumerate_cases(T["cfg"])
            log(f"[mc] {T['cfg']}: {mc['distinct']} distinct states (= cases), {mc['generated']} generated, "
                f"{mc['wall']:.1f}s, laws of the grammar hold")
            log("[mc] cases by reader/expectation: " +
                ", ".join(f"{f}/{s}={n}" for (f, s), n in sorted(mc["by"].items())))
            cpath = os.path.join(work, "cases.ndjson")
            with open(cpath, "w") as f:
                for c in cases:
                    f.write(json.dumps(c["case"], separators=(",", ":")) + "\n")
            # 2. the real code on the cases and on seeded random ones
            out = os.path.join(work, "cases_log.ndjson")
            run_harness(bin_path, ["cases", cpath, out])
            want = sum(1 if (c["case"]["ev"] == "build" or c["case"]["fn"] == "udp_parse") else 2 for c in cases)
            got = sum(1 for _ in open(out))
            if got != want:
                raise ToolError(f"socks_vec logged {got} lines for {want} executions")
            logs.append(("tlc-cases", out))
            for b in range(T["batches"]):
                out = os.path.join(work, f"random_{b}.ndjson")
                run_harness(bin_path, ["random", str(int(seed) * 1000003 + b), str(T["random"]), out])
                logs.append((f"random-{b}", out))
        # 3. TLC validates every logged line
        total = accepted = 0
        rejected = collections.defaultdict(list)  # sig -> [(rec, expected, source)]
        nontrivial = set()
        outcome = collections.Counter()
        samples = []
        for name, path in logs:
            n, bad, _ = validate(path)
            lines = read_lines(path)
            if n != len(lines) or n == 0:
                raise ToolError(f"TLC saw {n} lines of {len(lines)} in {name}")
            total += n
            accepted += n - len(bad)
            badset = {b[0] for b in bad}
            for ln, sig, exp in bad:
                if sig.startswith("other:malformed_line"):
                    raise ToolError(f"malformed log line {ln} in {name}: {lines[ln - 1][:300]}")
                rejected[sig].append((json.loads(lines[ln - 1]), exp, name))
            for i, text in enumerate(lines, 1):
                rec = json.loads(text)
                outcome[(rec["fn"], rec.get("mode", "-"), rec["res"])] += 1
                if i in badset:
                    continue
                if rec["res"] == "ok":
                    key = json.dumps({k: v for k, v in rec.items() if k not in ("src", "mode", "chunk")}, sort_keys=True)
                    nontrivial.add(vlib.trace_hash([key]))
                    if len(samples) < 4 and (rec["ev"] == "build" or len(rec["input"]) > 8) and \
                            rec["fn"] not in [s["fn"] for s in samples]:
                        samples.append(rec)
            log(f"[trace] {name}: {n} lines, {n - len(bad)} accepted by TLC, {len(bad)} rejected")
        # 4. verdict
        known = {k.get("sig"): k for k in vlib.load_known()
                 if k.get("property") == prop and k.get("status") == "open" and k.get("sig")}
        violations = []
        known_met = []
        rej_summary = {}
        for sig in sorted(rejected):
            items = sorted(rejected[sig], key=lambda x: size_of(x[0]))
            rej_summary[sig] = dict(lines=len(items), smallest=describe(items[0][0], items[0][1]))
            if sig in known:
                known_met.append(sig)
                print(f"KNOWN-FINDING: property={prop} {known[sig]['what']}", flush=True)
                log(f"   [{sig}] {len(items)} rejected lines, smallest: {describe(items[0][0], items[0][1])}")
                continue
            note = [f"property {prop}, signature {sig}: {len(items)} logged lines rejected by TLC (spec/SocksTrace.tla)",
                    "smallest rejected lines (what the code did   grammar: what spec/Socks.tla assigns):"]
            note += ["  " + describe(r, e) for r, e, _ in items[:12]]
            text = [json.dumps(r, separators=(",", ":"), sort_keys=True) + "\n" for r, _, _ in items[:MAX_REPLAY_LINES]]
            path = vlib.save_replay(prop, re.sub(r"[^A-Za-z0-9_]+", "_", sig), text, note="\n".join(note))
            violations.append((path, sig, len(items)))
            log("\n".join(note[:8]))
        wall = time.time() - t0
        if not replay:
            by = mc["by"]
            coverage = dict(
                states=mc["distinct"], transitions=mc["generated"],
                traces_validated_against_impl=accepted, evaluations=total,
                distinct_nontrivial=len(nontrivial),
                rule="a logged line counts when TLC accepted it and the observed outcome is `ok`, i.e. a request/datagram "
                     "whose every returned field and consumed-octet count was compared with the grammar, or a writer's "
                     "output compared octet for octet; distinct by function, input/arguments and output",
                samples=samples or [dict(note="no accepted ok line in this run")],
                model_checking_runs=[dict(config=T["cfg"], distinct_states=mc["distinct"], states_generated=mc["generated"],
                                          wall_s=round(mc["wall"], 1))],
                cases_by_reader_and_expectation={f"{f}/{s}": n for (f, s), n in sorted(by.items())},
                observed_outcomes={f"{f}/{m}/{r}": n for (f, m, r), n in sorted(outcome.items())},
                random_lines=T["random"] * T["batches"],
                rejected_by_signature=rej_summary,
                known_findings_met=known_met,
                exhaustive=False,
                explanation="TLC checks the laws of the SOCKS grammar (spec/Socks.tla: prefix law, error law, builder/parser "
                            "round trips, the UDP header theorem, all 256 versions / address types / domain lengths) and "
                            "enumerates every truncation of every boundary request as one state each (spec/MC_Socks.tla); "
                            "socks_vec runs each case on the real penguin_socks readers over an in-memory reader that ends "
                            "(eof) or stays pending (pend), and the writers on the enumerated argument tuples, plus seeded "
                            "random well-formed and mutated inputs; TLC validates every logged line against the grammar "
                            "(spec/SocksTrace.tla)",
            )
            vlib.write_evidence(prop, tier, seed, coverage, wall, sum(v[2] for v in violations), assumptions=[
                "v4::read_request and v5::read_auth_methods are called after the caller consumed the version octet "
                "(their documented contract; the dispatch in penguin/src/client/handle_remote/socks.rs is not exercised)",
                "an IP address returned as text is compared through std::net parsing (the octets it denotes)",
                "no expectation where the documents are silent: DSTIP 0.0.0.0 / 0.x.y.z (x or y nonzero) in SOCKS4, "
                "nonzero RSV octets, NMETHODS = 0; the SOCKS4 user id is not returned by the reader and not compared",
                "field values are boundary values and seeded random values, not all 2^n combinations",
            ])
        if violations:
            for path, sig, n in violations:
                print(f"VIOLATION property={prop} replay={path}", flush=True)
            return 1
        log(f"{prop} held on everything explored ({total} lines, {wall:.0f}s)")
        return 0
    finally:
        shutil.rmtree(work, ignore_errors=True)


if __name__ == "__main__":
    import argparse
    ap = argparse.ArgumentParser()
    ap.add_argument("tier", nargs="?", default="quick")
    ap.add_argument("--replay")
    ap.add_argument("--seed", default=os.environ.get("VERIF_SEED", "1"))
    a = ap.parse_args()
    try:
        sys.exit(check("C18", a.tier, int(a.seed), a.replay))
    except ToolError as e:
        print("TOOL ERROR:", e)
        sys.exit(2)
