SPECIFICATION Spec
CONSTANTS
  AckMode = "any"
  ThrMode = "fixed"
  EmptyMode = "fixed"
  RstMode = "pinned"
INVARIANTS NoViolation AckSound QueueBound InitialCredit DoneResolved
CONSTRAINT Track
POSTCONDITION Accepted
CHECK_DEADLOCK FALSE
