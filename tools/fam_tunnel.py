#!/usr/bin/env python3
"""C01: end-to-end transparency of the tunnel (TCP and UDP, every entry point).

spec/DirectConn.tla     the ORACLE: what the two ends of a direct connection observe (monitors Prefix, Complete,
                        HalfClose, ClosedNotHanging, Independent over an event history; the UDP relation, including the
                        target every datagram is addressed to; SOCKS5 replies through ParseUdp of Socks.tla), written
                        from the text of the property
spec/MC_DirectConn.tla  TLC runs every pair of endpoint programs over an ideal direct connection (monitors hold on every
                        interleaving, no program pair deadlocks), over broken networks / relays (negative controls: every
                        monitor fires), and GENERATES the scenario scripts: one SHAPE / USHAPE line per initial state,
                        one DIM line with the dimensions of concretisation (entry point kinds, size classes, ...).
                        Three families of TCP shapes: (1) writes, half-close / close in every order, refusal; (2) "hold":
                        one endpoint starts with its reader HELD, the other streams a write that blocks against it
                        (back-pressure), the held endpoint's small requests must still ARRIVE (`sync`) - the two
                        directions are independent pipes; (3) "sync": requests that must arrive while the connection
                        stays open, after the peer's end-of-stream or concurrently with the peer's own request.
                        UDP shapes: 1-3 clients, own / shared associations, idle periods, one client alternating
                        between TWO targets (SOCKS5)
harness_app tunnel      ONE real penguin server and ONE real penguin client in-process on loopback, one remote per entry
                        point kind; plays every script with real sockets on both ends and logs per-endpoint event
                        sequences (position-coded payloads: ranges of correctly coded octets, never the octets); it owns
                        both endpoints of a connection, so `sync` compares their counters: `timeout{what:"delivery"}` =
                        what this endpoint wrote was not read by the (reading) peer within the deadline
spec/TunnelTrace.tla    TLC validates every connection: the two endpoint logs are interleaved nondeterministically
                        (per-endpoint order exact, cross-endpoint order inferred), acceptance = some interleaving
                        satisfies the monitors; UDP exchanges through the relation; rejected lines come back with a
                        stable signature

A rejected connection whose signature is an `open` entry of KNOWN_FINDINGS.json (`"property":"C01","sig":...`) is
printed as KNOWN-FINDING and does not fail the check; any other signature is a VIOLATION.
`--replay <log>`: the scripts of a saved log (its "ev":"script" lines) are executed again and validated.
"""
import collections, json, os, random, re, shutil, sys, tempfile, time

import vlib
from vlib import log, ToolError

TIERS = {
    # mc: configurations model-checked; shapes_per_kind: how the generated shapes are spread over entry point kinds;
    # extra_random: seeded random scripts on top; deadline_ms: "left hanging" deadline of the harness
    # hold_conns: connections with a held reader (each moves 100-500 MiB); sync_conns: requests that must arrive;
    # alt_scripts: UDP exchanges in which one client alternates between two targets
    "quick": dict(mc=["MC_DirectConn_q"], tcp_conns=90, udp_scripts=11, random_conns=0, deadline_ms=5000, workers=8,
                  hold_conns=3, sync_conns=10, alt_scripts=2),
    "thorough": dict(mc=["MC_DirectConn"], tcp_conns=None, udp_scripts=None, random_conns=5000, deadline_ms=5000, workers=10,
                     hold_conns=None, sync_conns=None, alt_scripts=None),
}
NEG_TCP = {"lose": "Inv_Complete", "gap": "Inv_Prefix", "dup": "Inv_Prefix", "invent": "Inv_Prefix",
           "nofin": "Inv_HalfClose", "killother": "Inv_HalfClose", "hang": "Inv_Closed", "coupled": "Inv_Independent"}
NEG_UDP = {"u_wrongclient": "U_Client", "u_wrongsrc": "U_Source", "u_lostreply": "U_Reply", "u_modified": "U_Datagram",
           "u_replymod": "U_Reply", "u_layout": "U_Header", "u_frag": "U_Header", "u_wrongtarget": "U_Target"}
OUT_RE = re.compile(r'^<<"(SHAPE|USHAPE|DIM)", "(.*)">>$')
BAD_RE = re.compile(r'^<<"BAD", (\d+), "([^"]*)", "(.*)">>$')
NOTE_RE = re.compile(r'^<<"NOTE", (\d+), "([^"]*)">>$')
MAX_REPLAY_SCRIPTS = 12


def _unq(s):
    return json.loads(s.encode().decode("unicode_escape"))


# --------------------------------------------------------------------------------------
# 0. finding F19 (write_stalled_after_peer_closed, repaired): its two deterministic reproductions stay in the check
# --------------------------------------------------------------------------------------
F19_SIG = "write_stalled_after_peer_closed"


def f19_mux(work):
    """The mechanism of F19 one level down: a stream dropped after its own Finish while the peer is out of credit must be
    answered with Reset.  findings/F19/schedule.json is executed on the real penguin-mux (deterministic simulator) and
    TLC validates the trace against MuxTrace.tla (which demands the Reset and carries the invariant NoOrphanWriter).
    Returns (accepted, details, trace lines)."""
    d = vlib.build_harness(["mux_sim"])
    sched = os.path.join(vlib.VERIF, "findings", "F19", "schedule.json")
    out = os.path.join(work, "f19.ndjson")
    rc, o = vlib.run([os.path.join(d, "mux_sim"), "script", sched, out], timeout=120)
    if rc != 0:
        raise ToolError("mux_sim failed on findings/F19/schedule.json: " + o[-500:])
    r = vlib.validate_once("MuxTrace", "MuxTrace", out)
    det = dict(accepted=r["accepted"], rejected_at_line=r.get("line"), invariant=r.get("invariant"))
    return r["accepted"], det, open(out).readlines()


F19_SCRIPT_ID = 9000001
F19_SCRIPT = dict(ev="script", id=F19_SCRIPT_ID, proto="tcp", conns=[dict(
    entry="tcp", refuse=False, rhold_c=False, rhold_t=True, rbuf_c=65536, rbuf_t=65536,
    # the target never reads; once the client's writer stands still (the tunnel is full: the server's bridge is blocked
    # on the target socket, 512 frames are queued behind it, the client's bridge is out of credit) it half-closes, then
    # closes.  A direct connection fails the client's blocked write with a reset.
    c=[dict(op="wbig", piece=16777216, max=1610612736, chunk=65536), dict(op="close")],
    t=[dict(op="sleep", ms=1500), dict(op="hc"), dict(op="sleep", ms=500), dict(op="close")])])


def f19_tunnel(bin_path, work, seed):
    """The tunnel-level symptom of F19, deterministically: one connection of the script above on the real client + server.
    Returns (bad, item, script) with bad = [(sig, detail)] ([] if TLC accepts the connection)."""
    sp = os.path.join(work, "f19_script.ndjson")
    with open(sp, "w") as f:
        f.write(json.dumps(F19_SCRIPT, separators=(",", ":")) + "\n")
    raw = os.path.join(work, "f19_raw.ndjson")
    # its own, shorter deadline (a blocked write is reported after 8 deadlines): nothing else runs meanwhile
    run_tunnel(bin_path, sp, raw, seed, 2000, timeout=600)
    grouped = os.path.join(work, "f19_grouped.ndjson")
    items, script_of = group_log(raw, grouped)
    total, bad, _notes, _st = validate(grouped)
    if total != 1 or len(items) != 1:
        raise ToolError("the F19 scenario did not produce exactly one connection")
    return [(sig, det) for _ln, sig, det in bad], items[0], script_of[F19_SCRIPT_ID]


# --------------------------------------------------------------------------------------
# 1. model checking and script generation
# --------------------------------------------------------------------------------------
def model_check_oracle(T):
    runs = []
    states = transitions = 0
    for cfg in T["mc"]:
        r = vlib.model_check("MC_DirectConn", cfg, workers=T["workers"], timeout=2400, coverage=False)
        if not r["ok"]:
            log(r["out"][-3000:])
            raise ToolError(f"the oracle rejects an ideal direct connection: {r['violated']} in {cfg} (triage spec/DirectConn.tla)")
        runs.append(dict(config=cfg, distinct_states=r["distinct"], states_generated=r["states"], wall_s=round(r["wall"], 1)))
        states += r["distinct"]
        transitions += r["states"]
        log(f"[mc] {cfg}: {r['distinct']} distinct states, {r['states']} generated, {r['wall']:.1f}s: Prefix, Complete, "
            f"HalfClose, ClosedNotHanging, Independent hold on every interleaving of every program pair over the ideal connection; no deadlock")
    return runs, states, transitions


def negative_controls():
    """Every broken network / relay must violate the invariant named after the monitor that is to catch it. The runs are
    small and independent: they go in parallel (one TLC worker each), before the real-time section."""
    import concurrent.futures
    items = list(NEG_TCP.items()) + list(NEG_UDP.items())

    def one(item):
        fault, inv = item
        cfg = f"MC_DirectConn_neg_{fault}"
        r = vlib.model_check("MC_DirectConn", cfg, workers=1, timeout=600, coverage=False, xmx="1g")
        return fault, inv, cfg, r
    res = {}
    with concurrent.futures.ThreadPoolExecutor(max_workers=8) as ex:
        for fault, inv, cfg, r in ex.map(one, items):
            if r["violated"] != inv:
                raise ToolError(f"negative control {cfg}: expected {inv} violated, TLC reports {r['violated']}")
            res[fault] = dict(violated=inv, states=r["states"])
    return res


def generate():
    """The generation runs: returns (shapes, ushapes, dims, runs)."""
    shapes, ushapes, dims, runs = [], [], None, []
    st = tr = 0
    for cfg in ("MC_DirectConn_gen", "MC_DirectConn_udp"):
        r = vlib.model_check("MC_DirectConn", cfg, workers=1, timeout=1200, coverage=False)
        if not r["ok"]:
            log(r["out"][-3000:])
            raise ToolError(f"the oracle rejects an ideal run in {cfg}: {r['violated']}")
        for line in r["out"].split("\n"):
            m = OUT_RE.match(line.strip())
            if not m:
                continue
            v = _unq(m.group(2))
            if m.group(1) == "SHAPE":
                shapes.append(v)
            elif m.group(1) == "USHAPE":
                ushapes.append(v)
            else:
                dims = v
        runs.append(dict(config=cfg, distinct_states=r["distinct"], states_generated=r["states"], wall_s=round(r["wall"], 1)))
        st += r["distinct"]
        tr += r["states"]
    shapes = sorted({json.dumps(s, sort_keys=True) for s in shapes})
    ushapes = sorted({json.dumps(s, sort_keys=True) for s in ushapes})
    shapes = [json.loads(s) for s in shapes]
    ushapes = [json.loads(s) for s in ushapes]
    if not shapes or not ushapes or not dims:
        raise ToolError("vacuous generation: no SHAPE / USHAPE / DIM line")
    # vacuity of the enumeration: the orders of half-close / close the property quantifies over are all there
    need = dict(refuse=0, target_close_first=0, client_close_first=0, client_hc_first=0, target_hc_first=0, both_free=0,
                held_client=0, held_target=0, sync_after_peer_eof=0, sync_concurrent=0)
    for s in shapes:
        for f in features(s):
            if f in need:
                need[f] += 1
    for f, n in need.items():
        if n == 0:
            raise ToolError(f"vacuous generation: no shape with feature {f}")
    if not any(a >= 10 for u in ushapes for prof in u["clients"] for a in prof):
        raise ToolError("vacuous generation: no UDP shape with a second target")
    return shapes, ushapes, dims, runs, st, tr, need


def ops(side):
    return [o["op"] for o in side]


def features(shape):
    """Names of what a shape exercises (used to spread the quick sample and to count coverage)."""
    c, t = shape["c"], shape["t"]
    f = set()
    if shape.get("rhold", "none") != "none":
        # back-pressure: the held endpoint's requests must arrive although the other direction is blocked
        f.add("held_client" if shape["rhold"] == "c" else "held_target")
        return f
    if "sync" in ops(c) + ops(t):
        for p, q in ((c, t), (t, c)):
            if "sync" in ops(p):
                f.add("sync_after_peer_eof" if ops(p)[0] == "wait" else "sync_concurrent" if "sync" in ops(q) else "sync_plain")
        return f
    if ops(t) == ["refuse"]:
        f.add("refuse")
        f.add("refuse_wait" if "wait" in ops(c)[:-1] else "refuse_nowait")
        return f

    def body_wait(p):  # a wait that is not the one between hc and close
        o = ops(p)
        return any(x == "wait" and not (i > 0 and o[i - 1] == "hc") for i, x in enumerate(o))

    def fin(p):
        return "hc" if "hc" in ops(p) else "close"
    cw, tw = body_wait(c), body_wait(t)
    if cw and fin(t) == "close":
        f.add("target_close_first")
    if cw and fin(t) == "hc":
        f.add("target_hc_first")
    if tw and fin(c) == "close":
        f.add("client_close_first")
    if tw and fin(c) == "hc":
        f.add("client_hc_first")
    if not cw and not tw:
        f.add("both_free")
        f.add(f"free_{fin(c)}_{fin(t)}")
    # data after the peer's end-of-stream: the half-closed connection still delivers the other way
    for p, name in ((c, "client"), (t, "target")):
        o = ops(p)
        if body_wait(p) and any(x["op"] == "w" and x["n"] > 0 for x in p[o.index("wait"):]):
            f.add(f"{name}_writes_after_peer_eof")
    if any(x["op"] == "w" and x["n"] == 0 for x in c + t):
        f.add("zero_length_write")
    if any(x["op"] == "w" and x["n"] > 0 for x in c) and any(x["op"] == "w" and x["n"] > 0 for x in t):
        f.add("bidirectional")
    return f


def concretise(shape, entry, dims, rng, tier, k):
    """A connection of a script: the shape with an entry point kind, sizes and chunkings from the DIM line."""
    classes = [s for s in dims["sizes"] if s["quick"] or tier == "thorough"]
    # the huge class moves 5 MB through 1-octet reads badly: keep it for whole-buffer readers
    def side(p, salt):
        out = []
        for i, o in enumerate(p):
            if o["op"] == "w":
                if o["n"] == 0:
                    out.append(dict(op="w", n=0, chunk=1))
                else:
                    cl = classes[(k + salt + 3 * i) % len(classes)]
                    if cl["name"] == "huge" and rng.random() < 0.8:
                        cl = classes[rng.randrange(len(classes) - 1)]
                    out.append(dict(op="w", n=cl["n"], chunk=cl["chunk"], cls=cl["name"]))
            elif o["op"] == "wbig":
                b = [x for x in dims["big"] if x["quick"] or tier == "thorough"]
                b = b[k % len(b)]
                out.append(dict(op="wbig", piece=b["piece"], max=b["max"], chunk=b["chunk"], cls=b["name"]))
            elif o["op"] == "sleep":
                out.append(dict(op="sleep", ms=dims["sleep_ms"]))
            elif o["op"] != "refuse":
                out.append(dict(op=o["op"]))
        return out
    rb = dims["rbufs"]
    total = sum(o.get("n", 0) for o in side(shape["c"], 0) + side(shape["t"], 5))
    small_reads = total <= 70000
    conn = dict(entry=entry, refuse=ops(shape["t"]) == ["refuse"], c=side(shape["c"], 0), t=side(shape["t"], 5),
                rbuf_c=rb[(k // 2) % len(rb)] if small_reads else rb[k % 2], rbuf_t=rb[(k // 3) % len(rb)] if small_reads else rb[(k + 1) % 2])
    if any(o.get("cls") == "huge" or o["op"] == "wbig" for o in conn["c"] + conn["t"]):
        conn["rbuf_c"] = conn["rbuf_t"] = 65536
    conn["rhold_c"] = shape.get("rhold") == "c"
    conn["rhold_t"] = shape.get("rhold") == "t"
    # an optimistic SOCKS client: the first octets of its stream travel in the same write as the SOCKS request (SOCKS5:
    # greeting, request and payload pipelined), before it has read the proxy's reply
    if (entry.startswith("socks") or entry == "http") and not conn["refuse"] and k % 3 == 0:
        conn["eager"] = [1, 7, 300, 3200][(k // 3) % 4]
    return conn


def concretise_udp(u, dims, rng, sid):
    sz = dims["udp"]
    pick = lambda a, i: (sz["empty"] if a == 0 else sz["small"] if a == 1 else sz["large"])[i % len(sz["empty"] if a == 0 else sz["small"] if a == 1 else sz["large"])]
    # a < 0: an idle period; a >= 10: size class a - 10, addressed to the second target
    clients = [dict(dgrams=[dict(idle=True) if a < 0 else dict(n=pick(a - 10, sid + 3 * k + j), to=2) if a >= 10
                            else pick(a, sid + 3 * k + j) for j, a in enumerate(prof)])
               for k, prof in enumerate(u["clients"])]
    replies = [pick(a, sid + 7 + j) for j, a in enumerate(u["replies"])]
    return dict(ev="script", id=sid, proto="udp", mode=u["mode"], assoc=u["assoc"], clients=clients, replies=replies)


def build_scripts(shapes, ushapes, dims, tier, seed, T):
    rng = random.Random(int(seed) * 7919 + 17)
    entries = dims["entries"]
    conns = []  # (shape, entry)
    hold = [s for s in shapes if s.get("rhold", "none") != "none"]
    sync = [s for s in shapes if s.get("rhold", "none") == "none" and "sync" in ops(s["c"]) + ops(s["t"])]
    shapes = [s for s in shapes if s not in hold and s not in sync]
    if not hold or not sync:
        raise ToolError("vacuous generation: no back-pressure / sync shape")
    if T["tcp_conns"] is None:
        # thorough: every generated shape on every entry point kind
        for i, s in enumerate(shapes):
            for e in entries:
                conns.append((s, e))
        rng.shuffle(conns)
    else:
        # quick: every (feature, entry point kind) pair first, then a seeded sample of the rest
        by_feat = collections.defaultdict(list)
        for s in shapes:
            for f in features(s):
                by_feat[f].append(s)
        for f in sorted(by_feat):
            for e in entries:
                if len(conns) < T["tcp_conns"]:
                    conns.append((rng.choice(by_feat[f]), e))
        while len(conns) < T["tcp_conns"]:
            conns.append((rng.choice(shapes), rng.choice(entries)))
        rng.shuffle(conns)
    for _ in range(T["random_conns"]):
        conns.append((rng.choice(shapes), rng.choice(entries)))
    # requests that must arrive while the connection stays open: cheap, mixed with the others
    if T["sync_conns"] is None:
        conns += [(s, e) for s in sync for e in entries]
    else:
        after_eof = [s for s in sync if "sync_after_peer_eof" in features(s)]
        for i in range(T["sync_conns"]):
            pool = after_eof if i % 2 == 0 else sync
            conns.append((pool[rng.randrange(len(pool))], entries[(i + int(seed)) % len(entries)]))
    rng.shuffle(conns)
    # back-pressure: both mirror images, every entry point kind (thorough) / a handful (quick); each connection moves
    # hundreds of MiB, so they run one or two at a time
    heavy = []
    if T["hold_conns"] is None:
        hs = sorted(hold, key=lambda s: json.dumps(s, sort_keys=True))
        rng.shuffle(hs)
        for i, s in enumerate(hs):
            heavy.append((s, entries[i % len(entries)]))
        for side in ("c", "t"):                      # every (mirror image, entry point kind) pair at least twice
            pool = [s for s in hs if s["rhold"] == side]
            for i, e in enumerate(entries + entries):
                heavy.append((pool[(3 * i + 1) % len(pool)], e))
    else:
        for i in range(T["hold_conns"]):
            side = "c" if i % 3 != 2 else "t"
            pool = [s for s in hold if s["rhold"] == side]
            heavy.append((pool[rng.randrange(len(pool))], entries[(2 * i + int(seed)) % len(entries)]))
    scripts = []
    sid = 0
    i = 0
    nconc = dims["conc"]
    while i < len(conns):
        n = nconc[sid % len(nconc)]
        sid += 1
        group = conns[i:i + n]
        i += n
        scripts.append(dict(ev="script", id=sid, proto="tcp",
                            conns=[concretise(s, e, dims, rng, tier, sid * 3 + j) for j, (s, e) in enumerate(group)]))
    i = 0
    while i < len(heavy):
        n = 1 if T["hold_conns"] is not None else 1 + (sid % 2)
        sid += 1
        group = heavy[i:i + n]
        i += n
        scripts.append(dict(ev="script", id=sid, proto="tcp",
                            conns=[concretise(s, e, dims, rng, tier, sid * 3 + j) for j, (s, e) in enumerate(group)]))
    is_idle = lambda u: any(a < 0 for prof in u["clients"] for a in prof)
    is_alt = lambda u: any(a >= 10 for prof in u["clients"] for a in prof)
    idle = [u for u in ushapes if is_idle(u)]
    alt = [u for u in ushapes if is_alt(u)]
    us = [u for u in ushapes if not is_idle(u) and not is_alt(u)]
    if not idle:
        raise ToolError("vacuous generation: no UDP shape with an idle period")
    if T["udp_scripts"] is not None:
        # quick: both modes, shared and own associations, 1..3 clients; ONE exchange with an idle period (10 s of real time)
        rng.shuffle(us)
        # (SOCKS5 mode: it has targets of its own and runs in the background of the other scripts)
        idle = [sorted(idle, key=lambda u: (u["mode"] != "socks5", len(u["clients"]) != 1 + int(seed) % 2))[0]]
        rng.shuffle(alt)
        alt = ([u for u in alt if u["assoc"] == "own"][:1] + [u for u in alt if u["assoc"] == "shared"][:1])[:T["alt_scripts"]]
        chosen, seen = [], set()
        for u in us:
            key = (u["mode"], u["assoc"], len(u["clients"]))
            if key not in seen:
                seen.add(key)
                chosen.append(u)
        for u in us:
            if len(chosen) >= T["udp_scripts"]:
                break
            if u not in chosen:
                chosen.append(u)
        us = chosen
    # exchanges with an idle period in SOCKS5 mode first: they run in the background (10 s of waiting each)
    bg = [u for u in idle if u["mode"] == "socks5"]
    for u in bg + us + alt + [u for u in idle if u["mode"] != "socks5"]:
        sid += 1
        sc = concretise_udp(u, dims, rng, sid)
        if u in bg:
            sc["bg"] = True
        scripts.append(sc)
    # One client of a UDP REMOTE that stays silent for two idle timeouts (the client's own table of UDP peers is swept by a
    # timer of that period, so only then is its entry certainly gone) and then speaks again: it must still get its replies.
    # It runs on a UDP remote of its own, in the background of everything else.
    sid += 1
    lone = dict(ev="script", id=sid, proto="udp", mode="udp", assoc="own", remote=2, bg=True, idle_ms=20300,
                clients=[dict(dgrams=[dims["udp"]["small"][0], dict(idle=True), dims["udp"]["small"][1 % len(dims["udp"]["small"])], dims["udp"]["small"][0]])],
                replies=[dims["udp"]["small"][0]])
    scripts.append(lone)
    # A SOCKS5 client that has addressed a second target before the first one has answered: the first target takes 150 ms
    # for its reply, the client does not wait for it (own and shared association; one and two clients)
    small = dims["udp"]["small"]
    for assoc, ncl in (("own", 1), ("shared", 2)) if tier == "quick" else (("own", 1), ("own", 2), ("shared", 2), ("shared", 3)):
        sid += 1
        cls = [dict(dgrams=[dict(n=small[(k + 0) % len(small)], to=1, nowait=True), dict(n=small[(k + 1) % len(small)], to=2),
                            dict(n=small[(k + 2) % len(small)], to=2)]) for k in range(ncl)]
        scripts.append(dict(ev="script", id=sid, proto="udp", mode="socks5", assoc=assoc, clients=cls, replies=[small[0], small[1 % len(small)]],
                            late=[150, 0]))
    # the background exchanges are started first, so that their waiting overlaps with everything else
    scripts = [s for s in scripts if s.get("bg")] + [s for s in scripts if not s.get("bg")]
    return scripts


# --------------------------------------------------------------------------------------
# 2. the real tunnel
# --------------------------------------------------------------------------------------
def run_tunnel(bin_path, scripts_path, out_path, seed, deadline_ms, timeout):
    t = time.time()
    rc, o = vlib.run([bin_path, scripts_path, out_path, str(seed), str(deadline_ms)], timeout=timeout)
    if rc != 0 or not os.path.exists(out_path):
        log(o[-3000:])
        raise ToolError("the tunnel driver failed (a tool error, not an observation)")
    return time.time() - t


def group_log(raw_path, grouped_path):
    """Regroup the per-event lines into one line per connection / exchange; the order of each endpoint's events is kept,
    nothing else is decided here. Returns (items, scripts): items[i] describes line i+1 of the grouped file."""
    scripts = {}
    per = collections.OrderedDict()  # (s, c) -> {endpoint: [events]}
    sys_lines = []
    with open(raw_path) as f:
        for text in f:
            r = json.loads(text)
            if r.get("ev") == "script":
                scripts[r["id"]] = {k: v for k, v in r.items() if k != "s"}
                continue
            if r.get("e") == "sys":
                if r["ev"] in ("died", "panic", "script_timeout"):
                    sys_lines.append(r)
                continue
            per.setdefault((r["s"], r["c"]), collections.OrderedDict()).setdefault(r["e"], []).append(r)
    items, lines = [], []
    for (s, c), eps in per.items():
        sc = scripts[s]
        for evs in eps.values():
            if [e["i"] for e in evs] != list(range(1, len(evs) + 1)):
                raise ToolError(f"script {s} connection {c}: an endpoint log is not a sequence")
        strip = lambda e: {k: v for k, v in e.items() if k not in ("s", "c", "e", "i", "ms")}
        if sc["proto"] == "tcp":
            spec = sc["conns"][c - 1]
            rec = dict(kind="tcp", s=s, c=c, entry=spec["entry"], refuse=bool(spec.get("refuse")),
                       rhold_c=bool(spec.get("rhold_c")), rhold_t=bool(spec.get("rhold_t")),
                       C=[strip(e) for e in eps.get("c", [])], T=[strip(e) for e in eps.get("t", [])])
        else:
            tl, tl2 = eps.get("t", []), eps.get("t2", [])
            meta = [e for e in tl + tl2 if e["ev"] == "tmeta"]
            if not meta:
                raise ToolError(f"script {s}: no tmeta line")
            n = len(sc["clients"])
            rec = dict(kind="udp", s=s, c=0, mode=sc["mode"],
                       tgts=[dict(addr=m["addr"], port=m["port"]) for m in sorted(meta, key=lambda m: m["tgt"])],
                       CL=[[strip(e) for e in eps.get(f"c{k + 1}", [])] for k in range(n)],
                       T=[strip(e) for e in tl if e["ev"] != "tmeta"], T2=[strip(e) for e in tl2 if e["ev"] != "tmeta"])
        items.append(dict(s=s, c=c, kind=rec["kind"], eps=eps))
        lines.append(json.dumps(rec, separators=(",", ":")))
    for r in sys_lines:
        items.append(dict(s=r["s"], c=0, kind="sys", eps={"sys": [r]}))
        lines.append(json.dumps(dict(kind="sys", s=r["s"], ev=r["ev"], msg=str(r.get("msg", r.get("why", "")))[:300]), separators=(",", ":")))
    with open(grouped_path, "w") as f:
        f.write("\n".join(lines) + "\n")
    return items, scripts


# --------------------------------------------------------------------------------------
# 3. validation
# --------------------------------------------------------------------------------------
def validate(path, cfg="TunnelTrace"):
    """One TLC run over a grouped log. Returns (n_lines, bad, notes, states) with bad = [(line_no, sig, detail)]."""
    r = vlib.validate_once("TunnelTrace", cfg, path, timeout=3000, xmx="8g")
    notes = []
    for line in r["out"].split("\n"):
        m = NOTE_RE.match(line.strip())
        if m:
            notes.append((int(m.group(1)), m.group(2)))
    if r["accepted"]:
        m = re.search(r'<<"ACCEPTED lines", (\d+)>>', r["out"])
        return (int(m.group(1)) if m else 0), [], notes, r["states"]
    bad = []
    for line in r["out"].split("\n"):
        m = BAD_RE.match(line.strip())
        if m:
            try:
                det = _unq(m.group(3))
            except Exception:
                det = None
            bad.append((int(m.group(1)), m.group(2), det))
    m = re.search(r'<<"REJECTED at line", (\d+), "of", (\d+)>>', r["out"])
    total = int(m.group(2)) if m else 0
    mc = re.search(r'<<"BADCOUNT", (\d+)>>', r["out"])
    if not bad or not mc or int(mc.group(1)) != len(bad):
        log(r["out"][-3000:])
        raise ToolError("trace validation ended without a verdict for " + path)
    return total, bad, notes, r["states"]


def show_events(item, limit=40):
    out = []
    for ep, evs in item["eps"].items():
        out.append(f"    endpoint {ep}:")
        for e in evs[:limit]:
            body = {k: v for k, v in e.items() if k not in ("s", "c", "e", "i", "ev", "sfx")}
            if "head" in body:
                body["head"] = " ".join(f"{x:02x}" for x in body["head"])
            out.append(f"      {e.get('i', 0):3d} {e['ev']:8s} " + json.dumps(body, sort_keys=True))
        if len(evs) > limit:
            out.append(f"      ... {len(evs) - limit} more")
    return "\n".join(out)


def self_test(work, accepted_recs, strict=True):
    """The binding is real: hand-made corruptions of ACCEPTED lines of this very run must be rejected by TLC, each with
    the signature of the clause it breaks. Returns {mutation: signature}."""
    muts = []
    tcp = [r for r in accepted_recs if r["kind"] == "tcp" and not r["refuse"]]
    udp5 = [r for r in accepted_recs if r["kind"] == "udp" and r["mode"] == "socks5" and any(e["ev"] == "urecv" for cl in r["CL"] for e in cl)]
    udpm = [r for r in accepted_recs if r["kind"] == "udp" and len(r["CL"]) >= 2 and all(any(e["ev"] == "urecv" and e["n"] > 12 for e in cl) for cl in r["CL"][:2])]

    def clone(r):
        return json.loads(json.dumps(r))
    # octets lost before a clean end-of-stream
    def graceful(q):  # half-close, end-of-stream seen, only then the close: nothing was aborted on this side
        names = [e["ev"] for e in q]
        return "hc" in names and "eof" in names and "close" in names and names.index("eof") < names.index("close") \
            and "reset" not in names and "timeout" not in names
    for r in tcp:
        idx = [i for i, e in enumerate(r["C"]) if e["ev"] == "recv" and e["b"] - e["a"] >= 2]
        if idx and graceful(r["C"]) and graceful(r["T"]):
            m = clone(r)
            m["C"][idx[-1]]["b"] -= 1
            muts.append(("tcp_bytes_lost", m, {"tcp_bytes_lost"}))
            break
    # the local connection left hanging after the target closed
    # (a target that half-closed first makes the missing end-of-stream a half-close that was not propagated: prefer a
    # target that closed without half-closing, else accept either signature)
    cands = [r for r in tcp if any(e["ev"] == "close" for e in r["T"]) and any(e["ev"] == "eof" for e in r["C"])]
    plain = [r for r in cands if not any(e["ev"] == "hc" for e in r["T"])]
    for r in (plain or cands)[:1]:
        m = clone(r)
        i = [i for i, e in enumerate(m["C"]) if e["ev"] == "eof"][0]
        m["C"][i] = dict(ev="timeout", what="eof", peer_fin=True)
        muts.append(("left_hanging", m, {"left_hanging"} if plain else {"left_hanging", "halfclose_not_propagated"}))
    # a half-close that never arrives at the target
    for r in tcp:
        if any(e["ev"] == "hc" for e in r["C"]) and not any(e["ev"] == "close" for e in r["C"][:-1]) and any(e["ev"] == "eof" for e in r["T"]):
            m = clone(r)
            i = [i for i, e in enumerate(m["T"]) if e["ev"] == "eof"][0]
            m["T"][i] = dict(ev="timeout", what="eof", peer_fin=True)
            m["C"] = [e for e in m["C"] if e["ev"] != "close"]
            muts.append(("halfclose_not_propagated", m, {"halfclose_not_propagated"}))
            break
    # octets out of order
    for r in tcp:
        idx = [i for i, e in enumerate(r["T"]) if e["ev"] == "recv" and e["b"] - e["a"] >= 2]
        if idx:
            m = clone(r)
            m["T"][idx[0]]["a"] += 1
            muts.append(("tcp_bytes_misordered", m, {"tcp_bytes_misordered"}))
            break
    # SOCKS5 reply header: FRAG set / ADDR before ATYP
    if udp5:
        m = clone(udp5[0])
        e = [e for cl in m["CL"] for e in cl if e["ev"] == "urecv"][0]
        e["head"][2] = 1
        muts.append(("socks5_udp_header(frag)", m, {"socks5_udp_header"}))
        m = clone(udp5[0])
        e = [e for cl in m["CL"] for e in cl if e["ev"] == "urecv"][0]
        e["head"][3:8] = e["head"][4:8] + [e["head"][3]]
        muts.append(("socks5_udp_header(layout)", m, {"socks5_udp_header", "udp_reply_modified"}))
    # two replies swap their recipients
    if udpm:
        m = clone(udpm[0])
        a = [i for i, e in enumerate(m["CL"][0]) if e["ev"] == "urecv" and e["n"] > 12][0]
        b = [i for i, e in enumerate(m["CL"][1]) if e["ev"] == "urecv" and e["n"] > 12][0]
        ea, eb = m["CL"][0][a], m["CL"][1][b]
        for fld in ("n", "head", "sfx"):
            ea[fld], eb[fld] = eb[fld], ea[fld]
        muts.append(("udp_reply_wrong_client", m, {"udp_reply_wrong_client"}))
    # a request that did not arrive against the blocked direction: the harness's statement put where the `sync` was
    for r in tcp:
        if r.get("rhold_c") or r.get("rhold_t"):
            side = "C" if r["rhold_c"] else "T"
            names = [e["ev"] for e in r[side]]
            if "ron" in names and "send" in names[:names.index("ron")] and not any(e["ev"] in ("reset", "timeout") for e in r["C"] + r["T"]):
                m = clone(r)
                i = names.index("ron")
                sent = sum(e["n"] for e in m[side][:i] if e["ev"] == "send")
                m[side].insert(i, dict(ev="timeout", what="delivery", sent=sent, got=0, peer_reading=True, peer_fin=True))
                muts.append(("direction_blocked", m, {"direction_blocked"}))
                break
    # one client, two targets: a datagram addressed to the second target turns up at the first one
    for r in accepted_recs:
        if r["kind"] == "udp" and any(e["ev"] == "trecv" and e["n"] > 0 for e in r.get("T2", [])):
            m = clone(r)
            i = [i for i, e in enumerate(m["T2"]) if e["ev"] == "trecv" and e["n"] > 0][0]
            moved = m["T2"][i:i + 2]          # the datagram and the reply it got
            del m["T2"][i:i + 2]
            for e in moved:
                e["tgt"] = 1
            m["T"] += moved
            muts.append(("udp_datagram_wrong_target", m, {"udp_datagram_wrong_target"}))
            break
    need = {"direction_blocked", "udp_datagram_wrong_target", "tcp_bytes_lost", "left_hanging"}
    # (when lines of this run were rejected, the material for a corruption may be missing: that is the finding's business)
    if strict and not need <= {n for n, _, _ in muts}:
        raise ToolError(f"self-test: corruptions {sorted(need - {n for n, _, _ in muts})} could not be derived from the accepted lines of this run")
    if len(muts) < (4 if strict else 1):
        raise ToolError(f"self-test: only {len(muts)} corruptions could be derived from the accepted lines of this run")
    path = os.path.join(work, "selftest.ndjson")
    with open(path, "w") as f:
        for _, m, _ in muts:
            f.write(json.dumps(m, separators=(",", ":")) + "\n")
    total, bad, _, _ = validate(path)
    got = {ln: sig for ln, sig, _ in bad}
    res = {}
    for i, (name, _, want) in enumerate(muts, 1):
        if got.get(i) not in want:
            raise ToolError(f"self-test: the corruption `{name}` of an accepted line was {'accepted' if i not in got else 'rejected as ' + got[i]} by TLC (expected {sorted(want)})")
        res[name] = got[i]
    return res


# --------------------------------------------------------------------------------------
def check(prop, tier, seed, replay):
    if tier not in TIERS:
        raise ToolError(f"unknown tier {tier}")
    T = TIERS[tier]
    t0 = time.time()
    # VERIF_TUNNEL_BIN: a driver built elsewhere (evaluation of source mutants on a scratch copy of the repository)
    bin_path = os.environ.get("VERIF_TUNNEL_BIN") or os.path.join(vlib.build_harness(["tunnel"], crate=vlib.HARNESS_APP), "tunnel")
    work = tempfile.mkdtemp(prefix=f"{prop}_", dir=vlib.WORK)
    try:
        mc_runs, neg, cov_need = [], None, {}
        states = transitions = 0
        n_shapes = n_ushapes = 0
        spath = os.path.join(work, "scripts.ndjson")
        if replay:
            shutil.copy(os.path.abspath(replay), spath)
            scripts = [json.loads(l) for l in open(spath) if '"ev":"script"' in l.replace(" ", "")]
            if not scripts:
                raise ToolError("the replay file contains no script line")
        else:
            # 1. model checking (multi-worker) and script generation: finished before the real-time section starts
            mc_runs, states, transitions = model_check_oracle(T)
            neg = negative_controls()
            log("[mc] negative controls (broken networks / relays) caught: " + ", ".join(f"{k}->{v['violated']}" for k, v in neg.items()))
            shapes, ushapes, dims, gruns, gs, gt, cov_need = generate()
            mc_runs += gruns
            states += gs
            transitions += gt
            n_shapes, n_ushapes = len(shapes), len(ushapes)
            log(f"[gen] TLC generated {n_shapes} TCP shapes (pairs of endpoint programs; {cov_need}) and {n_ushapes} UDP "
                f"exchange shapes; dimensions: {len(dims['entries'])} entry point kinds, {len(dims['sizes'])} size classes")
            scripts = build_scripts(shapes, ushapes, dims, tier, seed, T)
            with open(spath, "w") as f:
                for s in scripts:
                    f.write(json.dumps(s, separators=(",", ":")) + "\n")
        # 2. the real tunnel (real time: nothing else of this check runs meanwhile)
        raw = os.path.join(work, "raw.ndjson")
        n_conns = sum(len(s.get("conns", [])) for s in scripts)
        n_udp = sum(1 for s in scripts if s["proto"] == "udp")
        wall_run = run_tunnel(bin_path, spath, raw, seed, T["deadline_ms"], timeout=3600)
        raw_lines = sum(1 for _ in open(raw))
        log(f"[run] tunnel: {len(scripts)} scripts ({n_conns} TCP connections, {n_udp} UDP exchanges), {raw_lines} event lines, {wall_run:.1f}s")
        grouped = os.path.join(work, "grouped.ndjson")
        items, script_of = group_log(raw, grouped)
        want = n_conns + n_udp
        got = sum(1 for it in items if it["kind"] != "sys")
        if got != want and not any(it["kind"] == "sys" for it in items):
            raise ToolError(f"the tunnel driver logged {got} connections / exchanges for {want}")
        # 3. TLC validates every connection
        tv = time.time()
        total, bad, notes, tstates = validate(grouped)
        tv = time.time() - tv
        if total != len(items) or total == 0:
            raise ToolError(f"TLC saw {total} lines of {len(items)}")
        log(f"[trace] {total} connections / exchanges, {total - len(bad)} accepted by TLC, {len(bad)} rejected "
            f"({tstates} states of the interleaving search, {tv:.1f}s)")
        recs = [json.loads(l) for l in open(grouped)]
        badset = {b[0] for b in bad}
        # 4. the binding is real: corrupt accepted lines, TLC must reject them
        st = None
        if not replay:
            st = self_test(work, [r for i, r in enumerate(recs, 1) if i not in badset], strict=not bad)
            log("[selftest] hand-corrupted copies of accepted lines rejected by TLC: " + ", ".join(f"{k}->{v}" for k, v in st.items()))
        # 5. verdict
        known = {k.get("sig"): k for k in vlib.load_known()
                 if k.get("property") == prop and k.get("status") == "open" and k.get("sig")}
        f19 = None
        f19_mux_lines = None
        if not replay:
            ok19, f19, lines19 = f19_mux(work)
            log(f"[F19] findings/F19/schedule.json on the real penguin-mux (a stream dropped after its Finish while the peer is out "
                f"of credit): " + ("accepted by TLC (the peer is told)" if ok19 else "REJECTED by TLC") + " " + json.dumps(f19))
            if not ok19:
                f19_mux_lines = lines19
            # ... and its symptom on the real tunnel
            f19_bad, f19_item, f19_sc = f19_tunnel(bin_path, work, seed)
            f19["tunnel_scenario"] = [sig for sig, _ in f19_bad] or ["accepted"]
            log(f"[F19] directed tunnel scenario (the target half-closes and closes without reading while the client's "
                f"writer is blocked): {f19['tunnel_scenario']}")
        rejected = collections.defaultdict(list)
        for ln, sig, det in bad:
            if sig == "other:malformed_script":
                raise ToolError(f"malformed script / log at line {ln}: {json.dumps(det)}")
            rejected[sig].append((items[ln - 1], det))
        if f19 is not None:
            script_of[F19_SCRIPT_ID] = f19_sc
            for sig, det in f19_bad:
                rejected[sig].append((f19_item, det))
        violations, known_met, rej_summary = [], [], {}
        for sig in sorted(rejected):
            its = sorted(rejected[sig], key=lambda x: (sum(len(v) for v in x[0]["eps"].values()), x[0]["s"], x[0]["c"]))
            first = its[0]
            rej_summary[sig] = dict(connections=len(its), smallest=dict(script=first[0]["s"], conn=first[0]["c"], detail=first[1]))
            note = [f"property {prop}, signature {sig}: {len(its)} connection(s) / exchange(s) rejected by TLC (spec/TunnelTrace.tla)",
                    "no interleaving of the per-endpoint logs is a behaviour of a direct connection (spec/DirectConn.tla):"]
            for it, det in its[:4]:
                note.append(f"  script {it['s']} connection {it['c']}: {json.dumps(det, sort_keys=True)}")
                note.append("  script: " + json.dumps(script_of[it["s"]], sort_keys=True)[:1500])
                note.append(show_events(it))
            if sig in known:
                known_met.append(sig)
                print(f"KNOWN-FINDING: property={prop} {known[sig]['what']}", flush=True)
                log(f"   [{sig}] {len(its)} rejected, smallest: script {first[0]['s']} connection {first[0]['c']} {json.dumps(first[1], sort_keys=True)}")
                continue
            seen = set()
            for it, _ in its:
                if it["s"] not in seen and len(seen) < MAX_REPLAY_SCRIPTS and it["s"] in script_of:
                    seen.add(it["s"])
            text = [json.dumps(script_of[sid], separators=(",", ":")) + "\n" for sid in sorted(seen)]
            # the replay file holds the scripts only (ports and timings differ from run to run: the observed logs are in
            # the note next to it), so the same finding is saved under the same name every time
            path = vlib.save_replay(prop, re.sub(r"[^A-Za-z0-9_]+", "_", sig), text, note="\n".join(note))
            violations.append((path, sig, len(its)))
            log("\n".join(note[:60]))
        # the mux-level reproduction of F19 counts like an observation of its signature
        if f19_mux_lines is not None and F19_SIG not in known_met and not any(v[1] == F19_SIG for v in violations):
            if F19_SIG in known:
                known_met.append(F19_SIG)
                print(f"KNOWN-FINDING: property={prop} {known[F19_SIG]['what']}", flush=True)
            else:
                path = vlib.save_replay(prop, F19_SIG + "_mux", f19_mux_lines,
                                        note="findings/F19/schedule.json on the real penguin-mux is rejected by spec/MuxTrace.tla: a writer out "
                                             "of credit whose peer dropped the stream after its own Finish is not told (Reset missing / "
                                             "NoOrphanWriter); behind a bridge the local connection is left hanging")
                violations.append((path, F19_SIG, 1))
        wall = time.time() - t0
        if not replay:
            # what was exercised (counted on accepted lines)
            nontrivial = set()
            by_entry = collections.Counter()
            feats = collections.Counter()
            samples = []
            for i, r in enumerate(recs, 1):
                if i in badset:
                    continue
                if r["kind"] == "tcp":
                    moved = sum(e["b"] - e["a"] for e in r["C"] + r["T"] if e["ev"] == "recv")
                    closed = any(e["ev"] in ("eof", "reset") for e in r["C"] + r["T"])
                    if closed and (moved > 0 or r["refuse"]):
                        sc = script_of[r["s"]]["conns"][r["c"] - 1]
                        nontrivial.add(json.dumps([r["entry"], sc["c"], sc["t"], sc.get("rbuf_c"), sc.get("rbuf_t")], sort_keys=True))
                        by_entry[r["entry"]] += 1
                        if len(samples) < 2 and r["entry"] not in [s.get("entry") for s in samples]:
                            samples.append(dict(entry=r["entry"], script=sc, client_log=r["C"][:10], target_log=r["T"][:10]))
                elif r["kind"] == "udp":
                    if any(e["ev"] == "urecv" for cl in r["CL"] for e in cl):
                        sc = script_of[r["s"]]
                        nontrivial.add(json.dumps([sc["mode"], sc["assoc"], sc["clients"], sc["replies"]], sort_keys=True))
                        by_entry["udp:" + sc["mode"] + ":" + sc["assoc"]] += 1
                        if not any(s.get("entry") == "udp:" + sc["mode"] for s in samples):
                            cl = [{k: v for k, v in e.items() if k != "sfx"} for e in r["CL"][0][:4]]
                            samples.append(dict(entry="udp:" + sc["mode"], script=sc, client1_log=cl, target_log=r["T"][:4]))
            for s in scripts:
                for cn in s.get("conns", []):
                    sh = dict(c=[dict(op=o["op"], n=min(o.get("n", 0), 1)) for o in cn["c"]],
                              t=[dict(op="refuse", n=0)] if cn["refuse"] else [dict(op=o["op"], n=min(o.get("n", 0), 1)) for o in cn["t"]],
                              rhold="c" if cn.get("rhold_c") else "t" if cn.get("rhold_t") else "none")
                    for f in features(sh):
                        feats[f] += 1
            coverage = dict(
                states=states, transitions=transitions,
                traces_validated_against_impl=total - len(bad), evaluations=total,
                distinct_nontrivial=len(nontrivial),
                rule="a TCP connection counts when TLC accepted it, octets were delivered (or the target refused) and an endpoint "
                     "observed the end of the stream; a UDP exchange counts when TLC accepted it and a reply reached a client; "
                     "distinct by entry point kind, the two endpoint programs with their sizes and chunkings (TCP) or by mode, "
                     "association, datagram and reply lengths (UDP)",
                samples=samples or [dict(note="no accepted line in this run")],
                model_checking_runs=mc_runs, negative_controls=neg,
                tlc_generated_tcp_shapes=n_shapes, tlc_generated_udp_shapes=n_ushapes, shape_features_generated=cov_need,
                scripts_executed=len(scripts), tcp_connections=n_conns, udp_exchanges=n_udp, event_lines=raw_lines,
                trace_validation_states=tstates, tunnel_wall_s=round(wall_run, 1), trace_validation_wall_s=round(tv, 1),
                accepted_by_entry_point=dict(sorted(by_entry.items())),
                executed_connections_by_feature=dict(sorted(feats.items())),
                self_test=st,
                notes={n: sum(1 for _, x in notes if x == n) for n in sorted({x for _, x in notes})},
                note_samples={n: [dict(script=script_of[items[ln - 1]["s"]], connection=items[ln - 1]["c"],
                                       logs={ep: [{k: v for k, v in e.items() if k not in ("sfx", "s", "c", "e")} for e in evs[:12]]
                                             for ep, evs in items[ln - 1]["eps"].items()})
                                  for ln, x in notes if x == n][:1] for n in sorted({x for _, x in notes})},
                rejected_by_signature=rej_summary, known_findings_met=known_met,
                f19_reproductions=dict(f19 or {}), exhaustive=False,
                explanation="TLC model-checks the oracle (spec/DirectConn.tla) on every pair of endpoint programs over an ideal "
                            "direct connection and over broken ones, and generates the scenario scripts (spec/MC_DirectConn.tla); "
                            "the driver plays each script on ONE real penguin client and ONE real penguin server connected over "
                            "loopback, with real sockets at a local client (after the entry point's own handshake: fixed TCP "
                            "remote, Unix-socket remote, SOCKS4, SOCKS4a, SOCKS5 with IPv4 and domain-name address, HTTP CONNECT, "
                            "UDP remote, SOCKS5 UDP ASSOCIATE with own and shared associations, one client alternating between two "
                            "targets) and at harness-owned targets; endpoints may start with their reader held (back-pressure); "
                            "TLC validates the per-endpoint logs of every connection against the oracle, searching the "
                            "interleavings of the two endpoint logs (spec/TunnelTrace.tla)",
            )
            vlib.write_evidence(prop, tier, seed, coverage, wall, sum(v[2] for v in violations), assumptions=[
                "the interleavings (task scheduling, TCP segmentation, timing of the tunnel's internal frames) are whatever the "
                "real tokio runtime and the loopback stack produce in this run; the enumeration is over SCRIPTS (endpoint "
                "programs, sizes, chunkings, entry point kinds, numbers of concurrent connections), not over schedules",
                "cross-endpoint order is never measured: each endpoint's log is exact in its own order (causes are logged before "
                "the system call, observations after it) and TLC accepts a connection iff some interleaving of the two logs is a "
                "behaviour of a direct connection",
                "the only timing-dependent judgements are `timeout`s, made on the harness's own clock (it owns both endpoints): the "
                f"peer finished (half-close, close or refusal) at least {T['deadline_ms']} ms ago and this endpoint still saw neither "
                "end-of-stream nor a reset; or (`delivery`) the peer's reader ran for that long and still had not read everything "
                "this endpoint wrote (a direct connection delivers at once: the two directions are independent)",
                "back-pressure is real, not simulated: the held endpoint does not read, the streaming endpoint writes piece after "
                "piece until the held reader is started (the unchanged tunnel absorbs 90-450 MiB before a writer blocks, so the "
                "amount is not a constant), and the held endpoint writes its request once the peer's writer stands still",
                "content is position coded by a keyed hash of (seed, script, connection, direction, offset): a receiver logs ranges "
                "of correctly coded octets, so loss, duplication, reordering, corruption and cross-talk between connections show "
                "up as a range that does not continue the previous one or as a `bad` octet (up to hash collisions); UDP payloads "
                "are compared as (length, 64-bit FNV digest)",
                "completeness is demanded only where a direct connection promises it: once an endpoint closed with octets for it "
                "unread or still to come, saw a reset, or the target refused, lost octets are accepted (TCP itself answers "
                "such octets with a reset); a reset where a FIN would do is accepted after the peer closed",
                "UDP delivery is demanded because the harness sends one datagram per client at a time and waits for the reply "
                "(loopback, at most 3 datagrams in flight): a datagram that does not arrive within the deadline is a finding",
                "the header of a relayed SOCKS5 reply must be well formed (ParseUdp) and leave the unmodified payload; which "
                "address it names is reported as a note (spec constant HdrAddr = \"target\" makes it a violation)",
                "IPv4 loopback only; the WebSocket is plain (no TLS); one client and one server process-wide, 4 runtime threads; "
                "fixed remotes share one target listener, so their connections are ESTABLISHED one at a time (data and closing "
                "phases are concurrent); SOCKS / HTTP connections are established concurrently",
            ])
        if notes:
            cnt = collections.Counter(x for _, x in notes)
            for n, c in sorted(cnt.items()):
                log(f"[note] {n}: {c} connection(s) / exchange(s) (not part of the verdict)")
            # an observation that is rare and timing dependent is shown with its logs, so that it can be followed up
            for ln, n in notes:
                if n == "write_stalled_after_peer_closed":
                    it = items[ln - 1]
                    log(f"[note] {n}: script {it['s']} connection {it['c']}: " + json.dumps(script_of[it["s"]]["conns"][it["c"] - 1], sort_keys=True))
                    log(show_events(it, 16))
        if violations:
            for path, sig, n in violations:
                print(f"VIOLATION property={prop} replay={path}", flush=True)
            return 1
        log(f"{prop} held on everything explored ({total} connections / exchanges, {wall:.0f}s)")
        return 0
    finally:
        if os.environ.get("VERIF_KEEP"):
            log(f"[keep] {work}")
        else:
            shutil.rmtree(work, ignore_errors=True)


if __name__ == "__main__":
    import argparse
    ap = argparse.ArgumentParser()
    ap.add_argument("tier", nargs="?", default="quick")
    ap.add_argument("--replay")
    ap.add_argument("--seed", default=os.environ.get("VERIF_SEED", "1"))
    a = ap.parse_args()
    try:
        sys.exit(check("C01", a.tier, int(a.seed), a.replay))
    except ToolError as e:
        print("TOOL ERROR:", e)
        sys.exit(2)
