SPECIFICATION Spec
CONSTANTS
  AckMode = "shaped"
  ThrMode = "fixed"
  EmptyMode = "fixed"
  RstMode = "fixed"
  CfgSet <- LiveCfgs
  Extra = 2
  BothWays = TRUE
  Stalled = FALSE
  Dgrams = 0
INVARIANT NoViolation
PROPERTY Progress
