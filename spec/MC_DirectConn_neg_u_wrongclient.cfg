\* C01: negative control: a relay with the fault `u_wrongclient` must violate U_Client
SPECIFICATION Spec
CONSTANTS
  MaxW = 1
  Sizes = {0}
  Fault = "u_wrongclient"
  Proto = "udp"
  Gen = FALSE
  MaxK = 2
INVARIANTS U_Client
