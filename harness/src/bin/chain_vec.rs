//! C20 driver: executes operation sequences on the REAL `cow_bytes::LongChain` / `CowBytes` and
//! projects what it observes into ndjson.  It never judges: TLC (spec/ChainTrace.tla) does.
//!
//!   chain_vec replay <seqs.ndjson> <out.ndjson> <profile>
//!       every input line {"id":N,"init":[[..],..],"ops":[{"op":..,"i":..,"x":[..]},..]} is replayed
//!       twice in lock-step: on a chain of borrowed chunks (`CowBytes::Temporary`, key "T") and on a
//!       chain of owned chunks (`CowBytes::Static`, key "S").  Operations: the inherent ones (push, insert,
//!       pop, remove, split_to, split_off, truncate, clear), `Buf::advance`, and the consuming methods every
//!       `bytes::Buf` has (copy_to_bytes(i), copy_to_slice(&mut [0; i]), get_u8(), get_u16()), called through
//!       the trait on the chain itself, so an override in the implementation is what gets executed.  After
//!       every operation the value is observed through as_ref, len, is_empty and the observing methods of
//!       `Buf` (remaining, chunk, has_remaining, chunks_vectored).  Every operation and every accessor runs
//!       under `catch_unwind`.  After a panic of an operation the replay of that sequence stops
//!       ("stop":"panic"); it also stops once the observed value is visibly degenerate (see `degenerate`).
//!   chain_vec random <seed> <count> <steps> <out.ndjson> <profile>
//!       seeded random sequences (arguments biased to the boundaries and one past), logged the same
//!       way; the generated operations are written into the "seq" lines so they can be replayed.
//!   chain_vec cow <strings.json> <out.ndjson> <profile>
//!       CowBytes itself: accessors, hash, formatting, comparisons, split/truncate/advance/read and
//!       Buf::copy_to_bytes / copy_to_slice at every position, Buf::get_u8 / get_u16, has_remaining and
//!       chunks_vectored, for the Temporary and the Static variant.
//!
//! Output: ndjson.  Event lines ("ev":"init"|"op"|"cow1"|"cow2") carry an "id"; an event whose content
//! (everything but the id) was already logged is not written again: the "seq" lines
//! {"ev":"seq","seq":N,"evs":[ids of the events of this sequence in order],"stop":why,"done":k}
//! reference the events, so the complete log of every sequence can be reconstructed (lossless).
//! <profile> is only a tag copied into every event ("debug" = debug assertions of cow-bytes on,
//! "release" = production build).

use bytes::{Buf, Bytes};
use cow_bytes::{CowBytes, LongChain};
use serde_json::Value;
use std::borrow::Borrow;
use std::collections::HashMap;
use std::fmt::Write as _;
use std::hash::{Hash, Hasher};
use std::io::{BufRead, BufReader, BufWriter, IoSlice, Read, Write};
use std::panic::{AssertUnwindSafe, catch_unwind};

// ------------------------------------------------------------------------------------------------
// operation sequences
// ------------------------------------------------------------------------------------------------
#[derive(Clone, Debug)]
struct OpRec {
    op: String,
    i: usize,
    x: Vec<u8>,
}

#[derive(Clone, Debug)]
struct SeqRec {
    id: u64,
    init: Vec<Vec<u8>>,
    ops: Vec<OpRec>,
}

fn bytes_of(v: &Value) -> Vec<u8> {
    v.as_array()
        .map(|a| a.iter().map(|b| b.as_u64().expect("byte") as u8).collect())
        .unwrap_or_default()
}

fn parse_seq(v: &Value, dflt_id: u64) -> SeqRec {
    let id = v.get("id").and_then(Value::as_u64).unwrap_or(dflt_id);
    let init = v["init"].as_array().map(|a| a.iter().map(bytes_of).collect()).unwrap_or_default();
    let ops = v["ops"]
        .as_array()
        .map(|a| {
            a.iter()
                .map(|o| OpRec {
                    op: o["op"].as_str().expect("op").to_string(),
                    i: o["i"].as_u64().unwrap_or(0) as usize,
                    x: bytes_of(&o["x"]),
                })
                .collect()
        })
        .unwrap_or_default();
    SeqRec { id, init, ops }
}

// ------------------------------------------------------------------------------------------------
// JSON writing (hand-written: fixed key order, fast)
// ------------------------------------------------------------------------------------------------
fn js_bytes(s: &mut String, b: &[u8]) {
    s.push('[');
    for (k, x) in b.iter().enumerate() {
        if k > 0 {
            s.push(',');
        }
        let _ = write!(s, "{x}");
    }
    s.push(']');
}

fn js_chunks(s: &mut String, c: &[Vec<u8>]) {
    s.push('[');
    for (k, x) in c.iter().enumerate() {
        if k > 0 {
            s.push(',');
        }
        js_bytes(s, x);
    }
    s.push(']');
}

fn js_ints(s: &mut String, b: &[u64]) {
    s.push('[');
    for (k, x) in b.iter().enumerate() {
        if k > 0 {
            s.push(',');
        }
        let _ = write!(s, "{x}");
    }
    s.push(']');
}

fn js_strs(s: &mut String, c: &[&'static str]) {
    s.push('[');
    for (k, x) in c.iter().enumerate() {
        if k > 0 {
            s.push(',');
        }
        let _ = write!(s, "\"{x}\"");
    }
    s.push(']');
}

// ------------------------------------------------------------------------------------------------
// observation of a chain through its public API
// ------------------------------------------------------------------------------------------------
#[derive(Clone, Debug, Default)]
struct Obs {
    ch: Vec<Vec<u8>>, // AsRef<[CowBytes]>
    len: i64,         // LongChain::len
    rem: i64,         // Buf::remaining
    chunk: Vec<u8>,   // Buf::chunk
    empty: bool,      // LongChain::is_empty
    has: bool,        // Buf::has_remaining
    iov: Vec<Vec<u8>>, // the slices Buf::chunks_vectored filled into a destination of IOV_CAP entries
    iov0: i64,        // what Buf::chunks_vectored reports for an empty destination
    drain: Vec<u8>,   // the bytes a reader gets through Buf (chunk/advance on a clone)
    accp: Vec<&'static str>, // accessors that panicked
}

fn guard<T>(f: impl FnOnce() -> T) -> Option<T> {
    catch_unwind(AssertUnwindSafe(f)).ok()
}

/// size of the destination handed to `Buf::chunks_vectored` (IovCap of spec/Chain.tla)
const IOV_CAP: usize = 2;

/// `Buf::chunks_vectored` with a destination of IOV_CAP entries and with an empty one.
/// Ok((slices filled, count reported for the empty destination)); Err(name) = what went wrong
/// ("chunks_vectored": a call panicked, "chunks_vectored_count": more slices reported than the destination has).
fn vectored<B: Buf>(c: &B) -> Result<(Vec<Vec<u8>>, i64), &'static str> {
    match guard(|| {
        let mut dst = [IoSlice::new(&[]); IOV_CAP];
        let n = c.chunks_vectored(&mut dst);
        let filled: Option<Vec<Vec<u8>>> = dst.get(..n).map(|d| d.iter().map(|x| x.to_vec()).collect());
        let n0 = c.chunks_vectored(&mut []);
        (filled, n0 as i64)
    }) {
        Some((Some(v), n0)) => Ok((v, n0)),
        Some((None, _)) => Err("chunks_vectored_count"),
        None => Err("chunks_vectored"),
    }
}

fn observe(c: &LongChain<'_>) -> Obs {
    let mut o = Obs::default();
    match guard(|| c.as_ref().iter().map(|x| x.as_ref().to_vec()).collect::<Vec<_>>()) {
        Some(v) => o.ch = v,
        None => o.accp.push("as_ref"),
    }
    match guard(|| c.len()) {
        Some(v) => o.len = v as i64,
        None => {
            o.len = -1;
            o.accp.push("len");
        }
    }
    match guard(|| c.remaining()) {
        Some(v) => o.rem = v as i64,
        None => {
            o.rem = -1;
            o.accp.push("remaining");
        }
    }
    match guard(|| c.chunk().to_vec()) {
        Some(v) => o.chunk = v,
        None => o.accp.push("chunk"),
    }
    match guard(|| c.is_empty()) {
        Some(v) => o.empty = v,
        None => o.accp.push("is_empty"),
    }
    match guard(|| c.has_remaining()) {
        Some(v) => o.has = v,
        None => o.accp.push("has_remaining"),
    }
    match vectored(c) {
        Ok((v, n0)) => {
            o.iov = v;
            o.iov0 = n0;
        }
        Err(what) => {
            o.iov0 = -1;
            o.accp.push(what);
        }
    }
    // what a consumer of the Buf reads: chunk() / advance(chunk().len()) until nothing remains
    let total: usize = o.ch.iter().map(Vec::len).sum();
    let limit = 2 * (o.ch.len() + total) + 8;
    match guard(|| {
        let mut d = c.clone();
        let mut out = Vec::new();
        let mut rounds = 0usize;
        while d.has_remaining() {
            rounds += 1;
            if rounds > limit {
                return (out, true);
            }
            let k = {
                let ch = d.chunk();
                out.extend_from_slice(ch);
                ch.len()
            };
            d.advance(k);
        }
        (out, false)
    }) {
        Some((v, stuck)) => {
            o.drain = v;
            if stuck {
                o.accp.push("drain_stuck");
            }
        }
        None => o.accp.push("drain"),
    }
    o
}

fn js_obs(s: &mut String, o: &Obs) {
    s.push_str("{\"ch\":");
    js_chunks(s, &o.ch);
    let _ = write!(s, ",\"len\":{},\"rem\":{},\"chunk\":", o.len, o.rem);
    js_bytes(s, &o.chunk);
    let _ = write!(s, ",\"empty\":{},\"has\":{},\"iov\":", o.empty, o.has);
    js_chunks(s, &o.iov);
    let _ = write!(s, ",\"iov0\":{},\"drain\":", o.iov0);
    js_bytes(s, &o.drain);
    s.push_str(",\"accp\":");
    js_strs(s, &o.accp);
    s.push('}');
}

/// Is the observed value visibly degenerate (an accessor panicked, an empty chunk is stored, the
/// reported length is not the sum of the chunk lengths)?  Only used to decide that going on with this
/// value carries no information: the replay of the sequence stops ("stop":"degenerate").  This is not
/// a verdict: the event showing the degenerate value is logged like any other and judged by TLC
/// (every degenerate value violates WF of spec/Chain.tla, so the line is rejected there).
fn degenerate(o: &Obs) -> bool {
    !o.accp.is_empty() || o.ch.iter().any(Vec::is_empty) || o.len != o.ch.iter().map(Vec::len).sum::<usize>() as i64
}

// ------------------------------------------------------------------------------------------------
// one operation on the real chain
// ------------------------------------------------------------------------------------------------
enum Ret {
    Unit,
    None,
    Bytes(Vec<u8>),
    Int(u64),
    Chain(Obs),
}

fn js_ret(s: &mut String, r: &Ret) {
    match r {
        Ret::Unit => s.push_str("{\"k\":\"unit\",\"b\":[]}"),
        Ret::None => s.push_str("{\"k\":\"none\",\"b\":[]}"),
        Ret::Bytes(b) => {
            s.push_str("{\"k\":\"bytes\",\"b\":");
            js_bytes(s, b);
            s.push('}');
        }
        Ret::Int(v) => {
            let _ = write!(s, "{{\"k\":\"int\",\"b\":[],\"v\":{v}}}");
        }
        Ret::Chain(o) => {
            s.push_str("{\"k\":\"chain\",\"b\":[],\"c\":");
            js_obs(s, o);
            s.push('}');
        }
    }
}

#[derive(Clone, Copy, PartialEq, Eq)]
enum Variant {
    Temporary,
    Static,
}

fn mk<'a>(v: Variant, data: &'a [u8]) -> CowBytes<'a> {
    match v {
        Variant::Temporary => CowBytes::Temporary(data),
        Variant::Static => CowBytes::Static(Bytes::from(data.to_vec())),
    }
}

/// Apply `op` to the real chain under catch_unwind.  Err(()) = the call panicked.
fn apply<'a>(c: &mut LongChain<'a>, v: Variant, op: &'a OpRec) -> Result<Ret, ()> {
    let r = catch_unwind(AssertUnwindSafe(|| match op.op.as_str() {
        "push" => {
            c.push(mk(v, &op.x));
            Ret::Unit
        }
        "insert" => {
            c.insert(op.i, mk(v, &op.x));
            Ret::Unit
        }
        "pop" => match c.pop() {
            Some(b) => Ret::Bytes(b.as_ref().to_vec()),
            None => Ret::None,
        },
        "remove" => Ret::Bytes(c.remove(op.i).as_ref().to_vec()),
        "split_to" => {
            let r = c.split_to(op.i);
            Ret::Chain(observe(&r))
        }
        "split_off" => {
            let r = c.split_off(op.i);
            Ret::Chain(observe(&r))
        }
        "truncate" => {
            c.truncate(op.i);
            Ret::Unit
        }
        "advance" => {
            c.advance(op.i);
            Ret::Unit
        }
        "clear" => {
            c.clear();
            Ret::Unit
        }
        // the consuming methods of bytes::Buf, through the trait on the chain itself
        "copy_to_bytes" => Ret::Bytes(Buf::copy_to_bytes(&mut *c, op.i).to_vec()),
        "copy_to_slice" => {
            let mut dst = vec![0u8; op.i];
            Buf::copy_to_slice(&mut *c, &mut dst);
            Ret::Bytes(dst)
        }
        "get_u8" => Ret::Int(u64::from(Buf::get_u8(&mut *c))),
        "get_u16" => Ret::Int(u64::from(Buf::get_u16(&mut *c))),
        other => {
            eprintln!("unknown operation {other}");
            std::process::exit(3);
        }
    }));
    r.map_err(|_| ())
}

/// deduplicating event sink of one worker
#[derive(Default)]
struct Sink {
    ids: HashMap<String, u32>,
    bodies: Vec<String>,
    logged: u64, // events logged including repetitions
}

impl Sink {
    fn put(&mut self, body: &str) -> u32 {
        self.logged += 1;
        if let Some(&k) = self.ids.get(body) {
            return k;
        }
        let k = self.bodies.len() as u32;
        self.ids.insert(body.to_string(), k);
        self.bodies.push(body.to_string());
        k
    }
}

struct SeqOut {
    seq: u64,
    evs: Vec<u32>,
    stop: &'static str,
    done: usize,
}

/// Build both chains, run the operations in lock-step, log every step.
/// `stop_degenerate`: give up on a visibly degenerate value (after logging it).
fn run_seq<'a>(
    id: u64,
    init: &'a [Vec<u8>],
    next_op: &mut dyn FnMut(&Obs) -> Option<&'a OpRec>,
    prof: &str,
    sink: &mut Sink,
    stop_degenerate: bool,
) -> SeqOut {
    let mut out = SeqOut { seq: id, evs: Vec::new(), stop: "end", done: 0 };
    let mut s = String::with_capacity(1024);
    let variants = [Variant::Temporary, Variant::Static];
    let mut chains: Vec<LongChain<'a>> = Vec::new();
    let mut obs: Vec<Obs> = Vec::new();
    // construction: new() + push of every initial chunk
    let mut init_ok = [true, true];
    for (vi, &v) in variants.iter().enumerate() {
        let mut c = LongChain::new();
        let r = catch_unwind(AssertUnwindSafe(|| {
            for ch in init {
                c.push(mk(v, ch));
            }
        }));
        init_ok[vi] = r.is_ok();
        obs.push(observe(&c));
        chains.push(c);
    }
    s.clear();
    let _ = write!(s, "\"ev\":\"init\",\"prof\":\"{prof}\",\"init\":");
    js_chunks(&mut s, init);
    for (vi, key) in ["T", "S"].iter().enumerate() {
        let _ = write!(s, ",\"{key}\":{{\"out\":\"{}\",\"a\":", if init_ok[vi] { "ok" } else { "panic" });
        js_obs(&mut s, &obs[vi]);
        s.push('}');
    }
    out.evs.push(sink.put(&s));
    if !(init_ok[0] && init_ok[1]) {
        out.stop = "panic";
        return out;
    }
    while let Some(op) = next_op(&obs[0]) {
        let mut rets = Vec::new();
        let mut after = Vec::new();
        for (vi, &v) in variants.iter().enumerate() {
            let r = apply(&mut chains[vi], v, op);
            after.push(observe(&chains[vi]));
            rets.push(r);
        }
        s.clear();
        let _ = write!(s, "\"ev\":\"op\",\"prof\":\"{prof}\",\"op\":\"{}\",\"i\":{},\"x\":", op.op, op.i);
        js_bytes(&mut s, &op.x);
        for (vi, key) in ["T", "S"].iter().enumerate() {
            let _ = write!(s, ",\"{key}\":{{\"b\":");
            js_obs(&mut s, &obs[vi]);
            match &rets[vi] {
                Ok(r) => {
                    s.push_str(",\"out\":\"ok\",\"a\":");
                    js_obs(&mut s, &after[vi]);
                    s.push_str(",\"ret\":");
                    js_ret(&mut s, r);
                }
                Err(()) => {
                    s.push_str(",\"out\":\"panic\",\"a\":");
                    js_obs(&mut s, &after[vi]);
                    s.push_str(",\"ret\":");
                    js_ret(&mut s, &Ret::Unit);
                }
            }
            s.push('}');
        }
        out.evs.push(sink.put(&s));
        out.done += 1;
        let panicked = rets.iter().any(Result::is_err);
        obs = after;
        if panicked {
            out.stop = "panic";
            break;
        }
        if stop_degenerate && obs.iter().any(degenerate) {
            out.stop = "degenerate";
            break;
        }
    }
    out
}

// ------------------------------------------------------------------------------------------------
// output
// ------------------------------------------------------------------------------------------------
struct Writer {
    w: BufWriter<std::fs::File>,
    global: HashMap<String, u32>,
    logged: u64,
}

impl Writer {
    fn new(path: &str) -> Self {
        let f = std::fs::File::create(path).unwrap_or_else(|e| {
            eprintln!("cannot create {path}: {e}");
            std::process::exit(3)
        });
        Self { w: BufWriter::with_capacity(1 << 20, f), global: HashMap::new(), logged: 0 }
    }

    /// returns the global id of the event, writing it when it is new
    fn event(&mut self, body: &str) -> u32 {
        if let Some(&k) = self.global.get(body) {
            return k;
        }
        let k = self.global.len() as u32 + 1;
        self.global.insert(body.to_string(), k);
        let _ = writeln!(self.w, "{{\"id\":{k},{body}}}");
        k
    }

    fn merge(&mut self, sink: Sink, seqs: Vec<(SeqOut, Option<&SeqRec>)>) {
        self.logged += sink.logged;
        let map: Vec<u32> = sink.bodies.iter().map(|b| self.event(b)).collect();
        let mut s = String::new();
        for (so, rec) in seqs {
            s.clear();
            let _ = write!(s, "{{\"ev\":\"seq\",\"seq\":{},\"evs\":[", so.seq);
            for (k, e) in so.evs.iter().enumerate() {
                if k > 0 {
                    s.push(',');
                }
                let _ = write!(s, "{}", map[*e as usize]);
            }
            let _ = write!(s, "],\"stop\":\"{}\",\"done\":{}", so.stop, so.done);
            if let Some(r) = rec {
                s.push_str(",\"init\":");
                js_chunks(&mut s, &r.init);
                s.push_str(",\"ops\":[");
                for (k, o) in r.ops.iter().take(so.done).enumerate() {
                    if k > 0 {
                        s.push(',');
                    }
                    let _ = write!(s, "{{\"op\":\"{}\",\"i\":{},\"x\":", o.op, o.i);
                    js_bytes(&mut s, &o.x);
                    s.push('}');
                }
                s.push(']');
            }
            s.push('}');
            let _ = writeln!(self.w, "{s}");
        }
    }

    fn finish(mut self, what: &str, seqs: usize) {
        let _ = self.w.flush();
        println!("{what}: sequences={seqs} events_logged={} distinct_events={}", self.logged, self.global.len());
    }
}

// ------------------------------------------------------------------------------------------------
// replay mode
// ------------------------------------------------------------------------------------------------
fn replay(path: &str, out: &str, prof: &str) {
    let f = std::fs::File::open(path).unwrap_or_else(|e| {
        eprintln!("cannot open {path}: {e}");
        std::process::exit(3)
    });
    let threads = std::thread::available_parallelism().map(|n| n.get()).unwrap_or(4).clamp(1, 8);
    let mut w = Writer::new(out);
    let mut total = 0usize;
    let mut lines = BufReader::with_capacity(1 << 20, f).lines();
    let mut n = 0u64;
    loop {
        // batches keep the memory bounded for the multi-million sequence files of the thorough tier
        let mut seqs = Vec::new();
        for line in lines.by_ref() {
            let line = line.expect("read");
            n += 1;
            if line.trim().is_empty() {
                continue;
            }
            let v: Value = serde_json::from_str(&line).unwrap_or_else(|e| {
                eprintln!("bad json at line {n}: {e}");
                std::process::exit(3)
            });
            seqs.push(parse_seq(&v, n));
            if seqs.len() >= 200_000 {
                break;
            }
        }
        if seqs.is_empty() {
            break;
        }
        let per = seqs.len().div_ceil(threads).max(1);
        let results: Vec<(Sink, Vec<SeqOut>)> = std::thread::scope(|sc| {
            let hs: Vec<_> = seqs
                .chunks(per)
                .map(|part| {
                    sc.spawn(move || {
                        let mut sink = Sink::default();
                        let outs: Vec<SeqOut> = part
                            .iter()
                            .map(|s| {
                                let mut it = s.ops.iter();
                                run_seq(s.id, &s.init, &mut |_| it.next(), prof, &mut sink, true)
                            })
                            .collect();
                        (sink, outs)
                    })
                })
                .collect();
            hs.into_iter().map(|h| h.join().expect("worker")).collect()
        });
        total += seqs.len();
        for (sink, outs) in results {
            w.merge(sink, outs.into_iter().map(|o| (o, None)).collect());
        }
    }
    w.finish("replay", total);
}

// ------------------------------------------------------------------------------------------------
// random mode
// ------------------------------------------------------------------------------------------------
struct Rng(u64);
impl Rng {
    fn next(&mut self) -> u64 {
        // splitmix64
        self.0 = self.0.wrapping_add(0x9E37_79B9_7F4A_7C15);
        let mut z = self.0;
        z = (z ^ (z >> 30)).wrapping_mul(0xBF58_476D_1CE4_E5B9);
        z = (z ^ (z >> 27)).wrapping_mul(0x94D0_49BB_1331_11EB);
        z ^ (z >> 31)
    }
    fn below(&mut self, n: u64) -> u64 {
        if n == 0 { 0 } else { self.next() % n }
    }
}

/// byte offsets of the chunk boundaries of an observed chunk list: 0, .., total
fn boundaries(ch: &[Vec<u8>]) -> Vec<usize> {
    let mut b = vec![0usize];
    let mut acc = 0;
    for c in ch {
        acc += c.len();
        b.push(acc);
    }
    b
}

/// an argument at, just inside or one past a boundary; `past` permits end + 1
fn pick_offset(r: &mut Rng, ch: &[Vec<u8>], past: bool) -> usize {
    let b = boundaries(ch);
    let total = *b.last().unwrap_or(&0);
    let v = match r.below(10) {
        0..=3 => b[r.below(b.len() as u64) as usize],
        4 | 5 => b[r.below(b.len() as u64) as usize] + 1,
        6 => b[r.below(b.len() as u64) as usize].saturating_sub(1),
        7 => total,
        _ => r.below(total as u64 + 1) as usize,
    };
    if past { v.min(total + 1) } else { v.min(total) }
}

fn random(seed: u64, count: u64, steps: usize, out: &str, prof: &str) {
    let mut r = Rng(seed ^ 0xC20C_20C2_0C20);
    let mut w = Writer::new(out);
    let mut nseq = 0usize;
    let mut next_byte = 0u8;
    // `count` sequences of up to `steps` operations are wanted; a sequence that ends early (an operation
    // panicked, the value became degenerate) is followed by further sequences until the budget of
    // count * steps operations is used (at most 50 * count sequences).
    let budget = count as usize * steps;
    let mut used = 0usize;
    let mut id = 0u64;
    while used < budget && id < 50 * count {
        id += 1;
        // initial chain: 0..3 chunks of 1..4 bytes
        let mut init: Vec<Vec<u8>> = Vec::new();
        for _ in 0..r.below(4) {
            let n = 1 + r.below(4) as usize;
            init.push((0..n).map(|_| { next_byte = next_byte.wrapping_add(1); next_byte }).collect());
        }
        // The generator aims at the boundaries of the current value: every operation is chosen from
        // the last observation of the real (borrowed) chain.  The chosen operations are recorded, so
        // the sequence can be replayed without the generator (`replay` mode).  Operations are leaked
        // on purpose: borrowed chunks must outlive the chain.
        let mut chosen: Vec<&'static OpRec> = Vec::new();
        let mut gen_op = |o: &Obs| -> Option<&'static OpRec> {
            if chosen.len() >= steps {
                return None;
            }
            let shape = &o.ch;
            let k = shape.len();
            let total: usize = shape.iter().map(Vec::len).sum();
            // out-of-range arguments are rare (about 2% of the operations) so that sequences get long
            let oob = r.below(100) < 2;
            let opn = r.below(21);
            let mut seg = |r: &mut Rng| -> Vec<u8> {
                let n = 1 + r.below(4) as usize;
                (0..n).map(|_| { next_byte = next_byte.wrapping_add(1); next_byte }).collect()
            };
            let op = match opn {
                0..=3 => OpRec { op: "push".into(), i: 0, x: if oob { Vec::new() } else { seg(&mut r) } },
                4..=6 => {
                    if oob && r.below(2) == 0 {
                        OpRec { op: "insert".into(), i: r.below(k as u64 + 1) as usize, x: Vec::new() }
                    } else {
                        let i = if oob { k + 1 } else { r.below(k as u64 + 1) as usize };
                        OpRec { op: "insert".into(), i, x: seg(&mut r) }
                    }
                }
                7 => OpRec { op: "pop".into(), i: 0, x: Vec::new() },
                8 => {
                    if k == 0 && !oob {
                        OpRec { op: "pop".into(), i: 0, x: Vec::new() }
                    } else {
                        let i = if oob { k } else { r.below(k as u64) as usize };
                        OpRec { op: "remove".into(), i, x: Vec::new() }
                    }
                }
                9..=14 => {
                    let nm = ["split_to", "split_off", "truncate", "advance", "split_to", "split_off"][(opn - 9) as usize];
                    let i = if oob { total + 1 + r.below(3) as usize } else { pick_offset(&mut r, shape, false) };
                    // keep most of the bytes most of the time so that the chain does not stay empty
                    let i = if !oob && r.below(3) > 0 {
                        match nm {
                            "split_to" | "advance" => i.min(2),
                            _ => total - (total - i).min(2),
                        }
                    } else {
                        i
                    };
                    OpRec { op: nm.into(), i, x: Vec::new() }
                }
                16..=18 => {
                    // Buf::copy_to_bytes / copy_to_slice: lengths at, just inside and one past the chunk
                    // boundaries; small most of the time so that the chain does not stay empty
                    let nm = ["copy_to_bytes", "copy_to_slice", "copy_to_bytes"][(opn - 16) as usize];
                    let i = if oob { total + 1 + r.below(3) as usize } else { pick_offset(&mut r, shape, false) };
                    let first = shape.first().map_or(0, Vec::len);
                    let i = if !oob && r.below(3) > 0 { i.min(first + r.below(2) as usize).min(total) } else { i };
                    OpRec { op: nm.into(), i, x: Vec::new() }
                }
                // get_u8 / get_u16 with too few bytes remaining are out-of-range calls: rare, like the others
                19 | 20 => {
                    let (nm, w) = if opn == 19 { ("get_u8", 1) } else { ("get_u16", 2) };
                    if total >= w || oob {
                        OpRec { op: nm.into(), i: 0, x: Vec::new() }
                    } else {
                        OpRec { op: "push".into(), i: 0, x: seg(&mut r) }
                    }
                }
                _ => {
                    if r.below(8) == 0 {
                        OpRec { op: "clear".into(), i: 0, x: Vec::new() }
                    } else {
                        OpRec { op: "push".into(), i: 0, x: seg(&mut r) }
                    }
                }
            };
            let op: &'static OpRec = Box::leak(Box::new(op));
            chosen.push(op);
            Some(op)
        };
        let init_ref: &'static [Vec<u8>] = Box::leak(init.clone().into_boxed_slice());
        let mut sink = Sink::default();
        let so = run_seq(id, init_ref, &mut gen_op, prof, &mut sink, true);
        used += so.done.max(1);
        let rec = SeqRec { id, init, ops: chosen.iter().map(|o| (*o).clone()).collect() };
        w.merge(sink, vec![(so, Some(&rec))]);
        nseq += 1;
    }
    w.finish("random", nseq);
}

// ------------------------------------------------------------------------------------------------
// cow mode: CowBytes itself
// ------------------------------------------------------------------------------------------------
fn hash_of<T: Hash + ?Sized>(t: &T) -> String {
    let mut h = std::collections::hash_map::DefaultHasher::new();
    t.hash(&mut h);
    format!("{:016x}", h.finish())
}

fn cmp_name(o: Option<std::cmp::Ordering>) -> &'static str {
    match o {
        Some(std::cmp::Ordering::Less) => "lt",
        Some(std::cmp::Ordering::Equal) => "eq",
        Some(std::cmp::Ordering::Greater) => "gt",
        None => "none",
    }
}

fn eq_arr(c: &CowBytes<'_>, y: &[u8]) -> &'static str {
    // PartialEq<&[u8; N]> needs the length at compile time
    match y.len() {
        0 => if *c == <&[u8; 0]>::try_from(y).expect("len") { "true" } else { "false" },
        1 => if *c == <&[u8; 1]>::try_from(y).expect("len") { "true" } else { "false" },
        2 => if *c == <&[u8; 2]>::try_from(y).expect("len") { "true" } else { "false" },
        3 => if *c == <&[u8; 3]>::try_from(y).expect("len") { "true" } else { "false" },
        _ => "na",
    }
}

fn cow_unary(s: &mut String, v: Variant, x: &[u8]) {
    let c = mk(v, x);
    let _ = write!(s, "{{\"len\":{},\"empty\":{},\"as_ref\":", c.len(), c.is_empty());
    js_bytes(s, c.as_ref());
    s.push_str(",\"deref\":");
    js_bytes(s, &c);
    s.push_str(",\"borrow\":");
    js_bytes(s, Borrow::<[u8]>::borrow(&c));
    s.push_str(",\"chunk\":");
    js_bytes(s, c.chunk());
    let _ = write!(s, ",\"rem\":{},\"hash\":\"{}\",\"lhex\":\"{:x}\",\"uhex\":\"{:X}\"", c.remaining(), hash_of(&c), c, c);
    let _ = write!(s, ",\"has\":{},\"iov\":", c.has_remaining());
    match vectored(&c) {
        Ok((v, n0)) => {
            js_chunks(s, &v);
            let _ = write!(s, ",\"iov0\":{n0},\"iov_err\":\"\"");
        }
        Err(what) => {
            let _ = write!(s, "[],\"iov0\":-1,\"iov_err\":\"{what}\"");
        }
    }
    let cl = c.clone();
    let _ = write!(s, ",\"clone_eq\":{},\"clone\":", cl == c);
    js_bytes(s, cl.as_ref());
    s.push_str(",\"into_static\":");
    js_bytes(s, c.clone().into_static().as_ref());
    s.push_str(",\"ops\":[");
    let mut first = true;
    // (operation, takes a position): the get operations are logged once, with p = 0.
    // `ret` is a list of bytes, except for get_u8 / get_u16: a one-element list holding the value.
    for (op, positional) in [
        ("split_to", true),
        ("split_off", true),
        ("truncate", true),
        ("advance", true),
        ("read", true),
        ("copy_to_bytes", true),
        ("copy_to_slice", true),
        ("get_u8", false),
        ("get_u16", false),
    ] {
        for p in 0..=(if positional { x.len() + 1 } else { 0 }) {
            let mut d = mk(v, x);
            let mut value: Option<u64> = None;
            let r = catch_unwind(AssertUnwindSafe(|| match op {
                "split_to" => d.split_to(p).as_ref().to_vec(),
                "split_off" => d.split_off(p).as_ref().to_vec(),
                "copy_to_bytes" => Buf::copy_to_bytes(&mut d, p).to_vec(),
                "copy_to_slice" => {
                    let mut dst = vec![0u8; p];
                    Buf::copy_to_slice(&mut d, &mut dst);
                    dst
                }
                "get_u8" => {
                    value = Some(u64::from(Buf::get_u8(&mut d)));
                    Vec::new()
                }
                "get_u16" => {
                    value = Some(u64::from(Buf::get_u16(&mut d)));
                    Vec::new()
                }
                "truncate" => {
                    d.truncate(p);
                    Vec::new()
                }
                "advance" => {
                    d.advance(p);
                    Vec::new()
                }
                _ => {
                    let mut buf = vec![0u8; p];
                    let n = Read::read(&mut d, &mut buf).expect("read of a byte buffer cannot fail");
                    buf.truncate(n);
                    buf
                }
            }));
            if !first {
                s.push(',');
            }
            first = false;
            let _ = write!(s, "{{\"op\":\"{op}\",\"p\":{p},\"out\":\"{}\",\"self\":", if r.is_ok() { "ok" } else { "panic" });
            let me = guard(|| d.as_ref().to_vec()).unwrap_or_default();
            js_bytes(s, &me);
            let _ = write!(s, ",\"len\":{},\"ret\":", guard(|| d.len() as i64).unwrap_or(-1));
            match value {
                Some(v) => js_ints(s, &[v]),
                None => js_bytes(s, &r.unwrap_or_default()),
            }
            s.push('}');
        }
    }
    s.push_str("]}");
}

fn cow(path: &str, out: &str, prof: &str) {
    let txt = std::fs::read_to_string(path).unwrap_or_else(|e| {
        eprintln!("cannot read {path}: {e}");
        std::process::exit(3)
    });
    let v: Value = serde_json::from_str(&txt).expect("json");
    let strings: Vec<Vec<u8>> = v["strings"].as_array().expect("strings").iter().map(bytes_of).collect();
    let mut w = Writer::new(out);
    let mut sink = Sink::default();
    let mut s = String::new();
    let vs = [("T", Variant::Temporary), ("S", Variant::Static)];
    for x in &strings {
        s.clear();
        let _ = write!(s, "\"ev\":\"cow1\",\"prof\":\"{prof}\",\"x\":");
        js_bytes(&mut s, x);
        let _ = write!(s, ",\"hash_slice\":\"{}\",\"default_len\":{}", hash_of(&x[..]), CowBytes::default().len());
        for (key, var) in vs {
            let _ = write!(s, ",\"{key}\":");
            cow_unary(&mut s, var, x);
        }
        sink.put(&s);
    }
    for x in &strings {
        for y in &strings {
            s.clear();
            let _ = write!(s, "\"ev\":\"cow2\",\"prof\":\"{prof}\",\"x\":");
            js_bytes(&mut s, x);
            s.push_str(",\"y\":");
            js_bytes(&mut s, y);
            // CowBytes against CowBytes, all four variant pairs
            for (kx, vx) in vs {
                for (ky, vy) in vs {
                    let a = mk(vx, x);
                    // when y is a prefix of x, every other such pair of equal variants compares x with a value that SHARES its
                    // storage (a truncated clone: same start pointer, shorter length) instead of an independently built one
                    let b = if kx == ky && x.starts_with(y) && (x.len() + y.len()) % 2 == 0 {
                        let mut c = a.clone();
                        c.truncate(y.len());
                        c
                    } else {
                        mk(vy, y)
                    };
                    let _ = write!(
                        s,
                        ",\"{kx}{ky}\":{{\"eq\":{},\"ne\":{},\"cmp\":\"{}\",\"lt\":{},\"le\":{},\"gt\":{},\"ge\":{}}}",
                        a == b, a != b, cmp_name(a.partial_cmp(&b)), a < b, a <= b, a > b, a >= b
                    );
                }
            }
            // CowBytes against plain byte containers
            for (kx, vx) in vs {
                let a = mk(vx, x);
                let yb = Bytes::from(y.clone());
                let _ = write!(
                    s,
                    ",\"{kx}\":{{\"eq_slice\":{},\"cmp_slice\":\"{}\",\"eq_bytes\":{},\"cmp_bytes\":\"{}\",\"eq_vec\":{},\"eq_arr\":\"{}\"}}",
                    a == y[..], cmp_name(a.partial_cmp(&y[..])), a == yb, cmp_name(a.partial_cmp(&yb)), a == *y, eq_arr(&a, y)
                );
            }
            sink.put(&s);
        }
    }
    let n = strings.len();
    w.merge(sink, Vec::new());
    w.finish("cow", n);
}

fn main() {
    std::panic::set_hook(Box::new(|_| {}));
    let a: Vec<String> = std::env::args().collect();
    let usage = || -> ! {
        eprintln!("usage: chain_vec replay <seqs> <out> <profile> | random <seed> <count> <steps> <out> <profile> | cow <strings.json> <out> <profile>");
        std::process::exit(3)
    };
    match a.get(1).map(String::as_str) {
        Some("replay") if a.len() == 5 => replay(&a[2], &a[3], &a[4]),
        Some("random") if a.len() == 7 => random(
            a[2].parse().unwrap_or_else(|_| usage()),
            a[3].parse().unwrap_or_else(|_| usage()),
            a[4].parse().unwrap_or_else(|_| usage()),
            &a[5],
            &a[6],
        ),
        Some("cow") if a.len() == 5 => cow(&a[2], &a[3], &a[4]),
        _ => usage(),
    }
}
