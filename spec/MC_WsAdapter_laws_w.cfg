\* WsAdapter thorough: the laws of the contract, wide alphabet (every boundary length), behaviours of up to 3 steps
SPECIFICATION SpecLaws
CONSTANTS
  EofNoneOk = TRUE
  Depth = 3
  FeedData <- FeedDataT
  FeedCtl <- FeedCtlT
  CloseVars = {0, 1, 2, 3}
  Frags <- FragsT
  Bads = {"opcode", "rsv", "bigctl", "fragctl", "mask"}
  Ends = {"eof", "ioerr", "ioerr_rst"}
  SendLens = {0, 1, 125, 126, 65535, 65536, 200000}
  SendKinds = {"ping", "pong", "close"}
  Wfail = TRUE
INVARIANTS TypeOK DelivLaw WireLaw FlushLaw NoHang
PROPERTY Terminal
CHECK_DEADLOCK FALSE
