------------------------------ MODULE MC_Live ------------------------------
(***************************************************************************)
(* C04: progress.  A finite workload (bursts longer than the window in     *)
(* both directions of one stream, optionally next to a stream whose reader *)
(* never reads, plus datagrams) under weak fairness of every actor.  The   *)
(* configuration pair is chosen in Init, so one run covers every           *)
(* (rwnd, threshold) pair of CfgSet on each side independently.            *)
(*                                                                         *)
(* The workload is finite by construction (no state constraint), `obs` is  *)
(* normalised in every step (no VIEW), so the liveness check is sound.     *)
(* Because every step consumes part of the workload the state graph is     *)
(* acyclic apart from the final self-loop, and  <>Done  under WF(Next) is  *)
(* equivalent to "every terminal state is Done", which TLC also checks as  *)
(* deadlock freedom (Finished is the only step enabled in a Done state).   *)
(***************************************************************************)
EXTENDS PenguinMux

CONSTANTS
  CfgSet,      \* Options records
  Extra,       \* frames written beyond the peer's window in each direction
  BothWays,     \* TRUE: B also writes to A
  Stalled,     \* TRUE: a second stream exists whose reader (on B) never reads; A floods it
  Dgrams       \* datagrams A sends while all this happens

VARIABLE st
vars == <<st>>

N(e) == st.cfg[Peer(e)].rwnd + Extra      \* bytes (= frames of length 1) endpoint e writes on stream 1

Init == st \in {InitState(c) : c \in [E -> CfgSet]}

Norm(S) == {[t EXCEPT !.obs = NoObs] : t \in {x \in S : x.obs.res # "pending"}}

Hs(e) == DOMAIN st.hnd[e]
App(e) == {h \in Hs(e) : st.hnd[e][h].st = "app"}
(* stream 1 = the first handle each application obtained, stream 2 = the second *)
Opened(e) == Cardinality({h \in Hs(e) : st.hnd[e][h].role = "req"}) + Cardinality(DOMAIN st.calls[e])
Streams == IF Stalled THEN 2 ELSE 1

AOpen   == /\ Opened("A") < Streams
           /\ st' \in {[t EXCEPT !.obs = NoObs] : t \in OpenStart(st, "A", st.ctr, "h0", 7, Opened("A") + 1)}
AOpenP  == \E c \in DOMAIN st.calls["A"] : st' \in Norm(OpenPoll(st, "A", c, 9))
AAcc    == st' \in Norm(Accept(st, "B"))
(* handle numbering is deterministic here: handle k on either side belongs to flow id k *)
Writer(e) ==
  /\ e = "A" \/ BothWays
  /\ 1 \in App(e) /\ st.hnd[e][1].woff < N(e)
  /\ st' \in Norm(Write(st, e, 1, 1))
Flooder ==
  /\ Stalled /\ 2 \in App("A") /\ st.hnd["A"][2].woff < st.cfg["B"].rwnd + 1
  /\ st' \in Norm(Write(st, "A", 2, 1))
Reader(e) ==
  /\ 1 \in App(e)
  /\ st' \in Norm(Read(st, e, 1, 4))
DgS == /\ Len(st.dgSent["A"]) < Dgrams
       /\ st' \in Norm(SendDgram(st, "A", 0, "h0", 9, "d", FALSE))
DgR == st' \in Norm(GetDgram(st, "B"))

TaskStep(e) ==
  \/ /\ st.task[e].ph = "run" /\ st.rxblk[e].k # "none"
     /\ st' = [Unblock(st, e) EXCEPT !.obs = NoObs] /\ st' # st
  \/ /\ st.task[e].ph = "run" /\ st.rxblk[e].k = "none" /\ SrcHasMsg(st, e)
     /\ st' = [RecvOne(st, e) EXCEPT !.obs = NoObs]
  \/ /\ st.task[e].ph = "run" /\ st.sink[e] = "open" /\ st.outq[e] # <<>>
     /\ st' = [Flush(SendOne(st, e), e) EXCEPT !.obs = NoObs]

Done ==
  /\ \A e \in E : (e = "A" \/ BothWays) =>
        /\ 1 \in App(e) /\ st.hnd[e][1].woff = N(e)
        /\ 1 \in App(Peer(e)) /\ st.hnd[Peer(e)][1].roff = N(e)
  /\ Len(st.dgSent["A"]) = Dgrams
  /\ st.dgq["B"] = <<>>
  /\ Opened("A") = Streams /\ DOMAIN st.calls["A"] = {}
  /\ \A e \in E : st.outq[e] = <<>> /\ st.wire[e] = <<>>

Finished == Done /\ UNCHANGED st

Next ==
  \/ AOpen \/ AOpenP \/ AAcc \/ Flooder \/ DgS \/ DgR
  \/ \E e \in E : Writer(e) \/ Reader(e) \/ TaskStep(e)
  \/ Finished

Spec == Init /\ [][Next]_vars /\ WF_vars(Next)

Progress == <>Done
NoViolation == st.viol = {}

MkCfg(rwnd, thr, ac, dg, bc, rt) ==
  [rwnd |-> rwnd, thr |-> thr, acceptCap |-> ac, dgCap |-> dg, bindCap |-> bc, retries |-> rt, kaI |-> 0, kaT |-> 0]
LiveCfgs  == {MkCfg(r, t, 1, 1, 0, 1) : r \in 1..3, t \in 1..4}
LiveCfgsQ == {MkCfg(r, t, 1, 1, 0, 1) : r \in 1..2, t \in 1..3}
LiveCfgsT == {MkCfg(r, t, 1, 1, 0, 1) : r \in 1..2, t \in 1..2}
=============================================================================
