\* C01 trace validation: the property's words (a well-formed RFC 1928 header and the unmodified payload); a write that
\* blocks for good after the peer closed is a local connection left hanging (signature write_stalled_after_peer_closed,
\* finding F19)
SPECIFICATION Spec
CONSTANTS
  HdrAddr = "any"
  Stall = "violation"
CONSTRAINT Track
POSTCONDITION Accepted
CHECK_DEADLOCK FALSE
