//! Conformance harness for the TLA+ specifications in /verif/spec.
pub mod sim;
