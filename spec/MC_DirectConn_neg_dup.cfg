\* C01: negative control: a network with the fault `dup` must violate Inv_Prefix
SPECIFICATION Spec
CONSTANTS
  MaxW = 1
  Sizes = {0, 2}
  Fault = "dup"
  Proto = "tcp"
  Gen = FALSE
  MaxK = 1
INVARIANTS Inv_Prefix
