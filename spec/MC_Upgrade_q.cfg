\* C14 quick: the valid request, every single deviation and all pairs of deviations, x 4 configurations
SPECIFICATION Spec
CONSTANTS
  MaxDev = 2
INVARIANTS TypeOK Laws Single Emit
CHECK_DEADLOCK FALSE
