SPECIFICATION Spec
CONSTANTS
  AckMode = "shaped"
  ThrMode = "fixed"
  EmptyMode = "fixed"
  RstMode = "fixed"
  CfgSet <- BindCfgs
  SameCfg = TRUE
  Openers = {"A"}
  MaxOpens = 0
  Ids = {1, 2}
  Hosts = {"h0"}
  MaxWrites = 0
  Writers = {"A", "B"}
  Lens = {1}
  ReadMax = {4}
  Closers = {}
  MuxDroppers = {}
  Cancellers = {}
  DgSenders = {}
  MaxDgrams = 0
  Binders = {"A", "B"}
  MaxBinds = 2
  Faults = {}
  AdvMsgs = {}
  MaxAdv = 0
  Bridgers = {}
  SplitFlush = FALSE
  MaxNow = 0
  MaxHandles = 2
  MaxCtr = 3
VIEW View
CONSTRAINT Bound
INVARIANTS NoViolation TypeOK AckSound QueueBound InitialCredit ExactlyOne TargetCarried BoundedRetry Released DoneResolved NoOrphanWriter
CHECK_DEADLOCK FALSE
