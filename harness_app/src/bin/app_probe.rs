fn main() {
    // build probe: the application library links
    let _ = rusty_penguin_lib::config::MAX_UDP_PACKET_SIZE;
    println!("ok");
}
