SPECIFICATION Spec
CONSTANTS
  Mode = "fixed"
  OrdMode = "relaxed"
  SC = "no"
  NPolls = 2
INVARIANTS ContractHolds NoRace StateWordSane
CHECK_DEADLOCK FALSE
