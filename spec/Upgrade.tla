------------------------------ MODULE Upgrade ------------------------------
(***************************************************************************)
(* Property C14: the decision table of the server's upgrade gate, written  *)
(* from the property text and PROTOCOL.md ("Connection Establishment",     *)
(* "Security considerations"), RFC 6455 (opening handshake) and RFC 9110   *)
(* (method tokens are case-sensitive, repeated field lines form a list) -- *)
(* not from penguin/src/server/service.rs.                                 *)
(*                                                                         *)
(*   "The server answers 101 and starts a tunnel if and only if the        *)
(*    request is a GET for /ws with Connection: upgrade, Upgrade:          *)
(*    websocket, Sec-WebSocket-Version: 13, Sec-WebSocket-Protocol:        *)
(*    penguin-v7 (header values compared case-insensitively), a            *)
(*    Sec-WebSocket-Key, and, when a pre-shared key is configured, an      *)
(*    X-Penguin-PSK header byte-for-byte equal to it; the 101 response     *)
(*    carries the accepted protocol and the RFC 6455 accept hash of the    *)
(*    key.  Every other request to /ws receives exactly the response the   *)
(*    same request would receive on an unknown path, and with obfuscation  *)
(*    on, /health and /version are indistinguishable from unknown paths."  *)
(*                                                                         *)
(* A verdict is one of "yes" (the condition of the property holds), "no"   *)
(* (it does not), "either" (the property does not decide: the response     *)
(* must be a correct 101 OR exactly the unknown-path response).  Verdicts  *)
(* are strings, not booleans, because TLC cannot compare TRUE with a       *)
(* string.                                                                 *)
(*                                                                         *)
(* Part 1 is the ABSTRACT table: a request is method x path x one VARIANT  *)
(* per header x upgrade-extension present or not; TLC enumerates it        *)
(* (MC_Upgrade.tla).  Part 2 is the same decision procedure over the       *)
(* CONCRETE octets of a request (header values as octet sequences); the    *)
(* trace specification (UpgradeTrace.tla) judges every logged request by   *)
(* part 2 and demands that it agrees with part 1 on the variant the        *)
(* harness claims to have built.                                           *)
(***************************************************************************)
EXTENDS Integers, Sequences, FiniteSets

Verdict == {"yes", "no", "either"}

(* ======================= part 1: the abstract table ==================== *)
HeaderNames == {"conn", "upgrade", "version", "proto", "key", "psk"}
\*  conn = Connection, upgrade = Upgrade, version = Sec-WebSocket-Version, proto = Sec-WebSocket-Protocol,
\*  key = Sec-WebSocket-Key, psk = X-Penguin-PSK
WordHeaders == {"conn", "upgrade", "version", "proto"}

\* absent   the header is not sent
\* exact    one field line with the value of the property text (key: a well-formed key; psk: the configured PSK)
\* case     the same with the case of its letters changed
\* near     a near-miss value (upgrades, websocket2, 14, penguin-v6; key: not 16 octets of base64; psk: a proper prefix)
\* dupgood  two field lines, both good
\* dupgb    two field lines, good then bad      } MIXED duplicates
\* dupbg    two field lines, bad then good      }
\* empty    one field line with an empty value
\* list     one field line with a comma-separated list that contains the good value (keep-alive, Upgrade)
\* padded   (psk only) the PSK with an octet added in front or behind
BaseVariants == {"absent", "exact", "case", "near", "dupgood", "dupgb", "dupbg", "empty", "list"}
VariantsOf(h) == IF h = "psk" THEN BaseVariants \cup {"padded"} ELSE BaseVariants

HeaderOk(h, v) ==
  CASE h \in {"conn", "upgrade", "proto"} ->
         \* compared case-insensitively; two equal good lines are the list "x, x" (RFC 9110 5.3) whose every member is
         \* the wanted token, RFC 6455 4.2.1 asks for a field that *includes* the token: every reading accepts.
         \* A mixed duplicate or a list with other members: the literal reading of the property rejects, the RFC
         \* reading ("includes the token", "one of the protocols offered") accepts: undecided.
         ( CASE v \in {"exact", "case", "dupgood"}      -> "yes"
             [] v \in {"absent", "near", "empty"}       -> "no"
             [] v \in {"dupgb", "dupbg", "list"}        -> "either" )
    [] h = "version" ->
         \* a single value in a request (RFC 6455 4.1 item 9, 11.3.5): "13, 8" is not 13; a repeated line is not
         \* something the property or the RFC decides
         ( CASE v \in {"exact", "case"}                    -> "yes"
             [] v \in {"absent", "near", "empty", "list"}  -> "no"
             [] v \in {"dupgood", "dupgb", "dupbg"}        -> "either" )
    [] h = "key" ->
         \* "a Sec-WebSocket-Key": presence.  RFC 6455 4.2.1 item 5 wants a base64 value of 16 octets and 11.3.1
         \* forbids repetition, 4.2.2 lets the server refuse otherwise: anything but one well-formed key is undecided
         ( CASE v \in {"exact", "case"}  -> "yes"
             [] v = "absent"             -> "no"
             [] OTHER                    -> "either" )
    [] h = "psk" ->
         \* byte-for-byte; PROTOCOL.md: "MAY contain any value allowed as an HTTP header value" (so it is no list);
         \* two lines: per-line equality accepts, equality with the combined value rejects: undecided
         ( CASE v = "exact"                                                   -> "yes"
             [] v \in {"absent", "case", "near", "padded", "empty", "list"}   -> "no"
             [] v \in {"dupgood", "dupgb", "dupbg"}                           -> "either" )

\* methods are the tokens themselves; RFC 9110 9.1: "The method token is case-sensitive"
Methods == {"GET", "POST", "HEAD", "PUT", "DELETE", "OPTIONS", "PATCH", "CONNECT", "TRACE", "get"}
\* ws_upper = /WS, ws_slash = /ws/, ws_nested = /x/ws : other paths (paths are case-sensitive octet strings);
\* ws_query = /ws?x=1 : whether a query component is still "a GET for /ws" is not decided by the property
Paths == {"ws", "health", "version", "other", "ws_upper", "ws_slash", "ws_nested", "ws_query"}
PathClass(p) == CASE p \in {"ws", "ws_query"} -> "ws"
                  [] p = "health"  -> "health"
                  [] p = "version" -> "version"
                  [] OTHER         -> "other"

Requests == [method : Methods, path : Paths, ext : BOOLEAN,
             h : { f \in [HeaderNames -> BaseVariants \cup {"padded"}] : \A x \in HeaderNames : f[x] \in VariantsOf(x) }]
\* backend = "none": the fallback is the configured 404 page; "echo": the fallback is proxying to a backend (the
\* harness's local HTTP server, whose answer depends on method and headers of the request it receives and reports
\* the request target it saw).  The table does not depend on it: the unknown-path twin is the reference either way.
Backends == {"none", "echo"}
Cfgs == [psk : BOOLEAN, obfs : BOOLEAN, backend : Backends]

Valid == [method |-> "GET", path |-> "ws", ext |-> TRUE, h |-> [x \in HeaderNames |-> "exact"]]

\* the conditions of the gate
CondNames == {"method", "query", "ext"} \cup HeaderNames

Verdicts(req, cfg) ==
  [k \in CondNames |->
     CASE k = "method" -> IF req.method = "GET" THEN "yes" ELSE "no"
       [] k = "query"  -> IF req.path = "ws_query" THEN "either" ELSE "yes"
       \* ext: the transport can be upgraded (hyper attached an OnUpgrade to the request; absent e.g. over HTTP/2).
       \* Without it no tunnel can start, yet the request is "fully valid": not decided, but nothing else than a
       \* correct 101 or the unknown-path response is acceptable.
       [] k = "ext"    -> IF req.ext THEN "yes" ELSE "either"
       \* PROTOCOL.md: a server that does not require a PSK "MUST ignore any X-Penguin-PSK header"
       [] k = "psk"    -> IF cfg.psk THEN HeaderOk("psk", req.h["psk"]) ELSE "yes"
       [] OTHER        -> HeaderOk(k, req.h[k])]

Outcomes == {"101", "fallback", "health", "version", "either"}

\* pc = class of the path, V = verdict of every condition
Combine(pc, obfs, V) ==
  CASE pc = "health"  -> IF obfs THEN "fallback" ELSE "health"
    [] pc = "version" -> IF obfs THEN "fallback" ELSE "version"
    [] pc = "other"   -> "fallback"
    [] pc = "ws"      -> IF \E k \in DOMAIN V : V[k] = "no" THEN "fallback"
                         ELSE IF \E k \in DOMAIN V : V[k] = "either" THEN "either"
                         ELSE "101"

\*  "101"       status 101 with the accepted protocol and the accept hash of the key
\*  "fallback"  status, headers and body identical to those of the same request on an unknown path
\*  "either"    one of the two above
\*  "health",
\*  "version"   the status page (obfuscation off); the property only says that it is no tunnel
Expected(req, cfg) == Combine(PathClass(req.path), cfg.obfs, Verdicts(req, cfg))

(* ---------------- sanity theorems of the table (checked by TLC on every enumerated case) ------------- *)
FullyValid(req, cfg) ==
  /\ req.method = "GET" /\ req.path = "ws" /\ req.ext
  /\ \A x \in HeaderNames \ {"psk"} : HeaderOk(x, req.h[x]) = "yes"
  /\ cfg.psk => HeaderOk("psk", req.h["psk"]) = "yes"

\* 101 <=> every condition of the property holds
Thm101(req, cfg) == (Expected(req, cfg) = "101") <=> FullyValid(req, cfg)
\* with obfuscation on the status pages do not exist
ThmObfs(req, cfg) == cfg.obfs => Expected(req, cfg) \notin {"health", "version"}
\* without a configured PSK the X-Penguin-PSK header is ignored
ThmPskIgnored(req, cfg) ==
  ~cfg.psk => \A v \in VariantsOf("psk") : Expected([req EXCEPT !.h["psk"] = v], cfg) = Expected(req, cfg)
\* every /ws outcome is a 101 or the fallback; no tunnel anywhere else
ThmWs(req, cfg) ==
  /\ PathClass(req.path) = "ws" => Expected(req, cfg) \in {"101", "fallback", "either"}
  /\ PathClass(req.path) # "ws" => Expected(req, cfg) \notin {"101", "either"}
\* a decided failure of one condition is never rescued by another: the result is the fallback
ThmNo(req, cfg) ==
  (PathClass(req.path) = "ws" /\ \E k \in CondNames : Verdicts(req, cfg)[k] = "no") => Expected(req, cfg) = "fallback"
\* the configuration matters only through the PSK condition and the status pages
ThmCfg(req, cfg) ==
  (PathClass(req.path) = "ws" /\ HeaderOk("psk", req.h["psk"]) = "yes") =>
     \A c2 \in Cfgs : Expected(req, c2) = Expected(req, cfg)

Theorems(req, cfg) ==
  /\ Expected(req, cfg) \in Outcomes
  /\ Thm101(req, cfg) /\ ThmObfs(req, cfg) /\ ThmPskIgnored(req, cfg) /\ ThmWs(req, cfg) /\ ThmNo(req, cfg)
  /\ ThmCfg(req, cfg)

(* ======================= part 2: the decision over concrete octets ======================= *)
\* a header value is a sequence of octets; the values of one header are a sequence of values (field lines in order)
Lower(b) == IF b >= 65 /\ b <= 90 THEN b + 32 ELSE b
LowerSeq(s) == [i \in 1 .. Len(s) |-> Lower(s[i])]

WUpgrade   == <<117, 112, 103, 114, 97, 100, 101>>               \* "upgrade"
WWebsocket == <<119, 101, 98, 115, 111, 99, 107, 101, 116>>      \* "websocket"
W13        == <<49, 51>>                                         \* "13"
WProto     == <<112, 101, 110, 103, 117, 105, 110, 45, 118, 55>> \* "penguin-v7"
Wanted(h) == CASE h = "conn" -> WUpgrade [] h = "upgrade" -> WWebsocket [] h = "version" -> W13 [] h = "proto" -> WProto

MinOf(S) == CHOOSE i \in S : \A j \in S : i <= j
MaxOf(S) == CHOOSE i \in S : \A j \in S : i >= j
RECURSIVE Split(_, _)
Split(s, sep) ==
  LET idx == {i \in 1 .. Len(s) : s[i] = sep} IN
  IF idx = {} THEN <<s>>
  ELSE LET i == MinOf(idx) IN <<SubSeq(s, 1, i - 1)>> \o Split(SubSeq(s, i + 1, Len(s)), sep)
Trim(s) ==
  LET nz == {i \in 1 .. Len(s) : s[i] \notin {32, 9}} IN
  IF nz = {} THEN <<>> ELSE SubSeq(s, MinOf(nz), MaxOf(nz))
\* the members of a comma-separated list (RFC 9110 5.6.1)
TokenSet(v) == LET p == Split(v, 44) IN { Trim(p[i]) : i \in 1 .. Len(p) }

ConcWord(h, vals) ==
  LET W == Wanted(h)
      n == Len(vals)
      G == {i \in 1 .. n : LowerSeq(vals[i]) = W}                                   \* lines equal to the wanted value
      L == {i \in 1 .. n : i \notin G /\ h # "version" /\ W \in TokenSet(LowerSeq(vals[i]))}  \* lists containing it
  IN IF n = 0 THEN "no"
     ELSE IF Cardinality(G) = n THEN (IF n > 1 /\ h = "version" THEN "either" ELSE "yes")
     ELSE IF G = {} /\ L = {} THEN "no"
     ELSE "either"

B64 == (65 .. 90) \cup (97 .. 122) \cup (48 .. 57) \cup {43, 47}
\* 16 octets = 22 base64 characters (the last one carrying 2 bits: A, Q, g or w) and "=="
WellFormedKey(v) ==
  /\ Len(v) = 24 /\ v[23] = 61 /\ v[24] = 61
  /\ \A i \in 1 .. 22 : v[i] \in B64
  /\ v[22] \in {65, 81, 103, 119}
ConcKey(vals) ==
  IF Len(vals) = 0 THEN "no"
  ELSE IF Len(vals) = 1 /\ WellFormedKey(vals[1]) THEN "yes"
  ELSE "either"

\* P = the configured PSK
ConcPsk(vals, P) ==
  LET n == Len(vals)
      G == {i \in 1 .. n : vals[i] = P}
  IN IF n = 0 THEN "no"
     ELSE IF Cardinality(G) = n THEN (IF n = 1 THEN "yes" ELSE "either")
     ELSE IF G = {} THEN "no"
     ELSE "either"

\* verdict of header h in the sent request s under a configuration whose PSK is pskCfg (<<>> = none, <<P>> = P)
ConcOk(h, s, pskCfg) ==
  CASE h \in WordHeaders -> ConcWord(h, s.h[h])
    [] h = "key"         -> ConcKey(s.h[h])
    [] h = "psk"         -> IF Len(pskCfg) = 0 THEN "yes" ELSE ConcPsk(s.h[h], pskCfg[1])

ConcPathClass(path) ==
  CASE path = "/ws"      -> "ws"
    [] path = "/health"  -> "health"
    [] path = "/version" -> "version"
    [] OTHER             -> "other"

\* s = [method, path, query (strings), ext (boolean), h (header -> sequence of values)]
ConcVerdicts(s, pskCfg) ==
  [k \in CondNames |->
     CASE k = "method" -> IF s.method = "GET" THEN "yes" ELSE "no"
       [] k = "query"  -> IF s.query = "" THEN "yes" ELSE "either"
       [] k = "ext"    -> IF s.ext THEN "yes" ELSE "either"
       [] OTHER        -> ConcOk(k, s, pskCfg)]

ExpectedConc(s, obfs, pskCfg) == Combine(ConcPathClass(s.path), obfs, ConcVerdicts(s, pskCfg))
=============================================================================
