#!/usr/bin/env python3
"""C20: CowBytes and LongChain behave exactly like a plain byte sequence.

    spec/Chain.tla        the property (relational postcondition `Post` on flattened sequences), the canonical
                          behaviour `Apply`, and the bounded-exhaustive model that emits every operation sequence.
                          Operations: push, insert, pop, remove, split_to, split_off, truncate, advance, clear and
                          the consuming methods of bytes::Buf (copy_to_bytes, copy_to_slice, get_u8, get_u16);
                          every observation carries the observing methods of Buf (remaining, chunk, has_remaining,
                          chunks_vectored) beside as_ref, len, is_empty
    harness chain_vec     replays the sequences on the real cow_bytes::LongChain (borrowed and owned chunks, debug
                          and production build), random long sequences, and the CowBytes accessor/comparison/Buf cases
    spec/ChainTrace.tla   TLC judges every logged event (the only oracle)

A rejected event is classified by the stable signature TLC prints for it (`REJ` lines: truncate_past_end,
push_empty, insert_empty, <op>_past_end, pop_empty, other:<op>, variant:<op>, other:cow1, ...).  Signatures listed in
KNOWN_FINDINGS.json as {"property":"C20","status":"open","sig":"<signature>"} are reported as KNOWN-FINDING and do
not fail the check; any other signature is a VIOLATION.  `VERIF_KNOWN_FINDINGS=<path>` substitutes another
known-findings file (same format) for this run.
"""
import collections, io, json, os, re, shutil, sys, tempfile, time
from concurrent.futures import ThreadPoolExecutor

import vlib
from vlib import log, ToolError

PROP = "C20"

TIERS = {
    "quick": dict(
        mc=[("Chain_q", 4, 1800)],        # generous: the machines are shared (≈ 13 s when idle)
        random=dict(count=24, steps=300),
        mc_timeout=1800,
    ),
    "thorough": dict(
        # Chain: widest alphabets, depth 3, goes on after out-of-range calls; Chain_d4 / Chain_d5: deeper, a sequence
        # ends with its first out-of-range call
        mc=[("Chain", 4, 3000), ("Chain_d4", 4, 3000), ("Chain_d5", 4, 3000)],
        random=dict(count=1500, steps=400),
        mc_timeout=3000,
    ),
}
OPS = ["push", "insert", "pop", "remove", "split_to", "split_off", "truncate", "advance", "clear",
       "copy_to_bytes", "copy_to_slice", "get_u8", "get_u16"]
NOARG = ("push", "pop", "clear", "get_u8", "get_u16")
PROFILES = ["debug", "release"]
NOTE_RE = re.compile(r'^<<"NOTE", (\d+), (\d+), "([^"]*)">>', re.M)
REJ_RE = re.compile(r'^<<"REJ", (\d+), (\d+), "([^"]*)">>', re.M)
EVS_RE = re.compile(r'"seq":(\d+),"evs":\[([\d,]*)\]')


def load_known():
    p = os.environ.get("VERIF_KNOWN_FINDINGS")
    if p:
        return json.load(open(p)).get("findings", [])
    return vlib.load_known()


def known_sigs():
    return {k["sig"]: k for k in load_known()
            if k.get("property") == PROP and k.get("status") == "open" and k.get("sig")}


# --------------------------------------------------------------------------------------
# TLC output -> cases
# --------------------------------------------------------------------------------------
def extract_cases(out, seqs_path):
    """Write the `SEQ` lines (operation sequences) of a TLC run to seqs_path, one {"id","init","ops"} per line.
    Returns (number of sequences, occurrences per operation, the `COWSET` JSON text or None)."""
    n, cow = 0, None
    occ = collections.Counter()
    with open(seqs_path, "w") as f:
        for line in io.StringIO(out):
            if line.startswith('<<"SEQ", "'):
                n += 1
                body = line[11:line.rindex('">>')].replace('\\"', '"')
                f.write('{"id":%d,%s\n' % (n, body))
                if n <= 100000:
                    for o in OPS:
                        if f'"op":"{o}"' in body:
                            occ[o] += 1
            elif line.startswith('<<"COWSET", "'):
                cow = line[13:line.rindex('">>')].replace('\\"', '"')
    return n, occ, cow


def seq_lookup(seqs_path):
    """ids -> {id: (init, ops)} by one scan of the sequence file"""
    def look(ids):
        want, got = set(ids), {}
        if not want:
            return got
        top = max(want)
        with open(seqs_path) as f:
            for k, line in enumerate(f, 1):
                if k in want:
                    j = json.loads(line)
                    got[k] = (j["init"], j["ops"])
                if k >= top:
                    break
        return got
    return look


def run_bin(bindir, args, timeout=3000):
    rc, o = vlib.run([os.path.join(bindir, "chain_vec")] + args, timeout=timeout)
    if rc != 0:
        log(o[-3000:])
        raise ToolError(f"chain_vec {args[0]} failed (rc={rc})")
    m = re.search(r"sequences=(\d+) events_logged=(\d+) distinct_events=(\d+)", o)
    if not m:
        raise ToolError("chain_vec printed no statistics: " + o[-300:])
    return dict(sequences=int(m.group(1)), events_logged=int(m.group(2)), distinct_events=int(m.group(3)))


# --------------------------------------------------------------------------------------
# one harness log: split, let TLC judge, map the verdicts back to the sequences
# --------------------------------------------------------------------------------------
def judge(kind, prof, path, seq_source):
    """kind: mc:<cfg>|random|cow|replay.  seq_source(ids) -> {id: (init, ops)} for logs whose seq lines carry no operations.
    Returns dict(stats, failures=[dict(sig, prof, kind, seq, k, init, ops, event)], rejected_lines, ...)."""
    ev_path = path + ".events"
    seq_lines = []
    n_ev = 0
    with open(path) as f, open(ev_path, "w") as g:
        for line in f:
            if line.startswith('{"ev":"seq"'):
                seq_lines.append(line)
            else:
                g.write(line)
                n_ev += 1
    if n_ev == 0:
        raise ToolError(f"empty event log {path} (vacuous)")
    r = vlib.validate_once("ChainTrace", "ChainTrace", ev_path, timeout=3000, xmx="6g")
    rej = {}      # event id -> signature
    rej_line = {}
    for m in REJ_RE.finditer(r["out"]):
        rej[int(m.group(2))] = m.group(3)
        rej_line[int(m.group(2))] = int(m.group(1))
    notes = collections.Counter(m.group(3) for m in NOTE_RE.finditer(r["out"]))
    if not r["accepted"] and not rej:
        log(r["out"][-3000:])
        raise ToolError(f"TLC did not reach the end of {ev_path} and recorded no rejected line")
    if r["accepted"] and rej:
        raise ToolError("inconsistent TLC verdict")
    mreach = re.search(r'<<"REJECTED lines", (\d+), "reached", (\d+)>>', r["out"])
    if mreach and int(mreach.group(2)) != n_ev + 1:
        raise ToolError(f"TLC reached line {mreach.group(2)} of {n_ev} in {ev_path}")
    failures = []
    clean = 0
    need_event = set()
    if kind == "cow":
        for eid, sig in sorted(rej.items()):
            failures.append(dict(sig=sig, prof=prof, kind=kind, seq=eid, k=0, eid=eid))
            need_event.add(eid)
    else:
        for line in seq_lines:
            if not rej:
                clean = len(seq_lines)
                break
            m = EVS_RE.search(line)
            evs = m.group(2).split(",") if m.group(2) else []
            hit = None
            for k, e in enumerate(evs):
                if int(e) in rej:
                    hit = (k, int(e))
                    break
            if hit is None:
                clean += 1
                continue
            failures.append(dict(sig=rej[hit[1]], prof=prof, kind=kind, seq=int(m.group(1)), k=hit[0], eid=hit[1],
                                 line=line if '"ops"' in line else None))
    # keep the failing sequences small: per signature the ones that fail earliest
    by_sig = collections.defaultdict(list)
    for f in failures:
        by_sig[f["sig"]].append(f)
    counts = {s: len(v) for s, v in by_sig.items()}
    kept = []
    for s, v in by_sig.items():
        v.sort(key=lambda f: (f["k"], f["seq"]))
        kept += v[:8]
    need_event |= {f["eid"] for f in kept}
    events = {}
    if need_event:
        with open(ev_path) as f:
            for line in f:
                m = re.match(r'\{"id":(\d+),', line)
                if m and int(m.group(1)) in need_event:
                    events[int(m.group(1))] = json.loads(line)
    looked = seq_source([f["seq"] for f in kept if kind != "cow" and not f.get("line")]) if seq_source else {}
    for f in kept:
        f["event"] = events.get(f["eid"])
        if kind == "cow":
            e = f["event"] or {}
            f["init"], f["ops"] = [], []
            f["cow"] = [e.get("x", [])] + ([e["y"]] if "y" in e else [])
        elif f.get("line"):
            j = json.loads(f["line"])
            f["init"], f["ops"] = j["init"], j["ops"][:f["k"]]
        else:
            init, ops = looked[f["seq"]]
            f["init"], f["ops"] = init, ops[:f["k"]]
        f.pop("line", None)
    return dict(kind=kind, prof=prof, events=n_ev, sequences=len(seq_lines), clean=clean, tlc_states=r["states"],
                counts=counts, failures=kept, notes=notes, rejected_ids=set(rej), first_unmatched=r.get("unmatched"), expected=r.get("expected"),
                ev_path=ev_path)


def nontrivial_count(ev_path, rejected_ids):
    """distinct (value, operation, argument) events ACCEPTED by TLC in which the operation changed the chunk list.
    Counted on the deduplicated event file."""
    n = 0
    per_op = collections.Counter()
    oob = 0
    samples = []
    with open(ev_path) as f:
        for line in f:
            if '"ev":"op"' not in line:
                continue
            e = json.loads(line)
            if e["id"] in rejected_ids:
                continue
            t = e["T"]
            per_op[e["op"]] += 1
            if t["out"] == "panic" or (t["out"] == "ok" and t["a"] == t["b"] and t["ret"]["k"] in ("unit", "none")):
                oob += 1
            if t["out"] == "ok" and (t["a"]["ch"] != t["b"]["ch"]):
                n += 1
                if (len(samples) < 3 and len(t["b"]["ch"]) >= 2 and e["op"] in ("copy_to_bytes", "split_to", "insert", "get_u16")
                        and e["op"] not in {s["op"] for s in samples}):
                    samples.append(dict(prof=e["prof"], op=e["op"], i=e["i"], x=e["x"], before=t["b"]["ch"],
                                        after=t["a"]["ch"], len_after=t["a"]["len"], returned=t["ret"],
                                        outcome=t["out"], owned_run_identical=(e["T"] == e["S"])))
    return n, per_op, oob, samples


def describe(f, expected=None):
    e = f.get("event") or {}
    lines = [f"signature {f['sig']}  profile {f['prof']}  source {f['kind']}  sequence {f['seq']}  failing step {f['k']}"]
    if f["kind"] == "cow":
        lines.append("  CowBytes case: " + json.dumps(e, sort_keys=True)[:1500])
        return "\n".join(lines)
    lines.append(f"  initial chunks {json.dumps(f['init'])}")
    for k, o in enumerate(f["ops"], 1):
        lines.append(f"  {k:3d}. {o['op']}({o['i'] if o['op'] not in NOARG else ''}"
                     f"{json.dumps(o['x']) if o['op'] in ('push', 'insert') else ''})")
    if e.get("ev") == "op":
        for v in ("T", "S"):
            t = e[v]
            lines.append(f"  [{'borrowed' if v == 'T' else 'owned'}] before: chunks={t['b']['ch']} len={t['b']['len']}")
            lines.append(f"      {e['op']}(i={e['i']}, x={e['x']}) -> {t['out']}; after: chunks={t['a']['ch']} len={t['a']['len']} "
                         f"remaining={t['a']['rem']} chunk()={t['a']['chunk']} is_empty={t['a']['empty']} "
                         f"has_remaining={t['a'].get('has')} chunks_vectored={t['a'].get('iov')} "
                         f"read-through-Buf={t['a']['drain']} accessors-that-panicked={t['a']['accp']} returned={t['ret']}")
    elif e:
        lines.append("  event: " + json.dumps(e, sort_keys=True)[:1200])
    return "\n".join(lines)


# --------------------------------------------------------------------------------------
def check(prop, tier, seed, replay):
    if prop != PROP:
        raise ToolError(f"fam_chain checks {PROP} only")
    T = TIERS[tier]
    t0 = time.time()
    vlib.ensure_dirs()
    timing = {}
    bins = {}
    tb = time.time()
    bins["debug"] = vlib.build_harness(["chain_vec"])
    bins["release"] = vlib.build_harness(["chain_vec"], release=True)
    timing["build_s"] = round(time.time() - tb, 1)
    work = tempfile.mkdtemp(prefix=f"{prop}_", dir=vlib.WORK)
    pool = ThreadPoolExecutor(max_workers=6)
    try:
        mc_runs = []
        states = transitions = 0
        cow_json = None
        results = []

        def harness_and_judge(kind, prof, args_fn, seq_source):
            out = os.path.join(work, f"{kind.replace(':', '_')}_{prof}.ndjson")
            t1 = time.time()
            st = run_bin(bins[prof], args_fn(out, prof))
            t2 = time.time()
            res = judge(kind, prof, out, seq_source)
            res["harness"] = st
            res["harness_s"] = round(t2 - t1, 1)
            res["tlc_s"] = round(time.time() - t2, 1)
            return res

        def replay_args(path):
            return lambda out, prof: ["replay", path, out, prof]

        def cow_args(path):
            return lambda out, prof: ["cow", path, out, prof]

        futures = []
        if replay:
            # a saved replay file: operation sequences and/or CowBytes cases, re-executed on the current tree
            rs, cs = [], []
            for line in open(replay):
                if not line.strip():
                    continue
                j = json.loads(line)
                if j.get("cow"):
                    cs += [x for x in j["cow"] if x not in cs]
                elif "ops" in j:
                    rs.append(dict(init=j["init"], ops=j["ops"]))
            if not rs and not cs:
                raise ToolError("replay file contains no case")
            if rs:
                seqs_path = os.path.join(work, "seqs.ndjson")
                with open(seqs_path, "w") as f:
                    for k, j in enumerate(rs, 1):
                        f.write(json.dumps(dict(id=k, init=j["init"], ops=j["ops"])) + "\n")
                futures += [pool.submit(harness_and_judge, "replay", p, replay_args(seqs_path), seq_lookup(seqs_path)) for p in PROFILES]
            if cs:
                cow_path = os.path.join(work, "cow.json")
                json.dump(dict(strings=cs), open(cow_path, "w"))
                futures += [pool.submit(harness_and_judge, "cow", p, cow_args(cow_path), None) for p in PROFILES]
        else:
            # random long sequences: independent of the model checking, run beside it
            rnd = T["random"]
            for p in PROFILES:
                futures.append(pool.submit(harness_and_judge, "random", p,
                                           lambda out, prof: ["random", str(seed), str(rnd["count"]), str(rnd["steps"]), out, prof], None))
            # 1. the design: TLC checks that the canonical behaviour satisfies the property and emits the cases;
            # 2. the implementation: every emitted sequence is replayed on the real code, both builds (while the
            #    next configuration is model-checked);  3. TLC judges every logged event
            for cfg, workers, tmo in T["mc"]:
                r = vlib.model_check("Chain", cfg, workers=workers, timeout=tmo, coverage=False)
                if not r["ok"]:
                    log(r["out"][-3000:])
                    raise ToolError(f"specification configuration {cfg} violates {r['violated']} (triage spec/Chain.tla)")
                seqs_path = os.path.join(work, f"seqs_{cfg}.ndjson")
                tw = time.time()
                nseq, occ, cw = extract_cases(r["out"], seqs_path)
                timing[f"write_cases_{cfg}_s"] = round(time.time() - tw, 1)
                if nseq == 0:
                    raise ToolError(f"vacuous run: {cfg} emitted no operation sequence")
                missing = [o for o in OPS if occ[o] == 0]
                if missing:
                    raise ToolError(f"vacuous: operations never generated by {cfg}: {missing}")
                if cw and (cow_json is None or len(cw) > len(cow_json)):
                    cow_json = cw
                states += r["distinct"]
                transitions += r["states"]
                mc_runs.append(dict(config=cfg, distinct_states=r["distinct"], states_generated=r["states"],
                                    sequences_emitted=nseq, wall_s=round(r["wall"], 1)))
                log(f"[mc] {cfg}: {r['distinct']} distinct states, {nseq} operation sequences emitted, {r['wall']:.1f}s, "
                    f"ApplyMeetsPost NoEmptyChunk LenIsSum PanicOnlyOutOfRange hold")
                del r
                for p in PROFILES:
                    futures.append(pool.submit(harness_and_judge, f"mc:{cfg}", p, replay_args(seqs_path), seq_lookup(seqs_path)))
            if not cow_json:
                raise ToolError("no CowBytes cases emitted")
            cow_path = os.path.join(work, "cow.json")
            open(cow_path, "w").write(cow_json)
            for p in PROFILES:
                futures.append(pool.submit(harness_and_judge, "cow", p, cow_args(cow_path), None))
            # the specification keeps its teeth: the model of the pinned code must violate it
            r = vlib.model_check("Chain", "Chain_pinned", workers=1, timeout=900, coverage=False)
            if r["violated"] != "ApplyMeetsPost":
                raise ToolError("Chain_pinned.cfg (model of the pinned defects) no longer violates ApplyMeetsPost")
            log("[mc] Chain_pinned: the model of the pinned defects violates ApplyMeetsPost, as it must")
        results = [f.result() for f in futures]

        # ------------------------------------------------------------------ verdict
        known = known_sigs()
        all_fail = []
        sig_counts = collections.Counter()
        for res in results:
            h = res["harness"]
            log(f"[impl] {res['kind']:6s} {res['prof']:7s}: {res['sequences'] or h['sequences']} sequences, {h['events_logged']} events logged, "
                f"{res['events']} distinct events judged by TLC ({res['tlc_states']} states, {res['tlc_s']}s), "
                f"rejected sequences by signature: {res['counts'] or 'none'}")
            for s, c in res["counts"].items():
                sig_counts[(s, res["prof"])] += c
            all_fail += res["failures"]
        notes = collections.Counter()
        for res in results:
            for k, c in res["notes"].items():
                notes[f"{k}/{res['prof']}"] += c
        if any(k.startswith("cow_read_not_consumed") for k in notes):
            print(f"NOTE: property={prop} outside the statement of {PROP}, not part of the verdict: <CowBytes as std::io::Read>::read "
                  f"hands out the first bytes but does not consume them (lib.rs impl_by_as_ref: it advances a temporary "
                  f"copy of the slice); a plain &[u8] reader consumes. cases: {dict(notes)}")
        violations = []
        kf_seen = []
        by_sig = collections.defaultdict(list)
        for f in all_fail:
            by_sig[f["sig"]].append(f)
        for sig in sorted(by_sig):
            fs = sorted(by_sig[sig], key=lambda f: (f["k"], len(json.dumps(f["init"])), f["prof"]))
            profs = sorted({p for (s, p), c in sig_counts.items() if s == sig})
            total = sum(c for (s, p), c in sig_counts.items() if s == sig)
            shown = [next(f for f in fs if f["prof"] == p) for p in profs if any(f["prof"] == p for f in fs)]
            desc = "\n".join(describe(f) for f in shown[:2])
            if sig in known:
                print(f"KNOWN-FINDING: property={prop} {known[sig].get('what', sig)} [sig={sig} profiles={','.join(profs)} sequences={total}]")
                kf_seen.append(sig)
                continue
            lines = []
            seen = set()
            for f in fs:
                key = (json.dumps(f["init"]), json.dumps(f["ops"]), json.dumps(f.get("cow")))
                if key in seen:
                    continue
                seen.add(key)
                rec = dict(init=f["init"], ops=f["ops"], sig=sig, profile=f["prof"], source=f["kind"], failing_step=f["k"])
                if f.get("cow"):
                    rec["cow"] = f["cow"]
                lines.append(json.dumps(rec) + "\n")
            note = (f"{prop} signature {sig}: rejected in profiles {profs}, {total} sequences/cases in this run\n"
                    f"re-run: ./check {prop} {tier} --replay <this file>\n\n{desc}")
            if replay:
                path = os.path.abspath(replay)      # the replayed file still fails: it is its own witness
            else:
                path = vlib.save_replay(prop, re.sub(r"[^A-Za-z0-9_]", "_", sig), lines[:12], note=note)
            violations.append((sig, path, desc, profs, total))

        wall = time.time() - t0
        for sig, path, desc, profs, total in violations:
            log(f"--- {prop} rejected: {sig} (profiles {','.join(profs)}, {total} sequences/cases)")
            log(desc)
        if not replay:
            mcres = [r for r in results if r["kind"].startswith("mc")]
            nt = 0
            per_op = collections.Counter()
            oob = 0
            samples = []
            for r in mcres + [r for r in results if r["kind"] == "random"]:
                a, b, c_, s = nontrivial_count(r["ev_path"], r["rejected_ids"])
                nt += a
                per_op += b
                oob += c_
                samples += s
            for o in OPS:
                if per_op[o] == 0:
                    raise ToolError(f"vacuous: no event for operation {o}")
            if oob == 0:
                raise ToolError("vacuous: no out-of-range argument was exercised")
            cowres = [r for r in results if r["kind"] == "cow"]
            coverage = dict(
                states=states, transitions=transitions,
                traces_validated_against_impl=sum(r["clean"] for r in results if r["kind"] != "cow"),
                evaluations=sum(r["harness"]["events_logged"] for r in results),
                distinct_events_judged_by_tlc=sum(r["events"] for r in results),
                tlc_validation_states=sum(r["tlc_states"] for r in results),
                distinct_nontrivial=nt,
                rule="a distinct (observed value, operation, argument) event counts when TLC accepted it, the operation "
                     "returned ok and changed the observed chunk list; counted on the deduplicated event files of both builds",
                accepted_distinct_events_per_operation=dict(per_op),
                accepted_distinct_events_out_of_range=oob,
                sequences_replayed={f"{r['kind']}_{r['prof']}": (r["sequences"] or r["harness"]["sequences"]) for r in results},
                events_logged={f"{r['kind']}_{r['prof']}": r["harness"]["events_logged"] for r in results},
                cow_cases={f"{r['prof']}": r["events"] for r in cowres},
                rejected_sequences_by_signature={f"{s}/{p}": c for (s, p), c in sorted(sig_counts.items())},
                known_findings_met=sorted(kf_seen),
                observations_outside_the_property=dict(notes),
                model_checking_runs=mc_runs,
                samples=samples[:3] or [dict(note="no sample")],
                timing=dict(timing, per_run={f"{r['kind']}_{r['prof']}": dict(harness_s=r["harness_s"], tlc_s=r["tlc_s"]) for r in results}),
                exhaustive=True,
                operations=OPS,
                observed_after_every_operation=["as_ref (chunk list)", "len", "is_empty", "Buf::remaining", "Buf::chunk",
                                                "Buf::has_remaining", "Buf::chunks_vectored (destination of 2 entries and empty destination)",
                                                "reading to the end through Buf::chunk/advance on a clone"],
                explanation="TLC model-checks spec/Chain.tla: from every initial chain shape of the configuration every operation "
                            "(push, insert, pop, remove, split_to, split_off, truncate, advance, clear, and the consuming methods every "
                            "bytes::Buf has: copy_to_bytes(n), copy_to_slice(n bytes), get_u8(), get_u16()) "
                            "is applied with every argument from 0 to one past the end (every chunk index, every byte offset / length), "
                            "to the configured depth (configurations with StopAtOOR = TRUE, the quick one among them, end a sequence "
                            "with its first out-of-range call); invariants: the canonical behaviour meets the relational postcondition Post "
                            "(a consuming Buf method removes the first n bytes and returns exactly those bytes; n > remaining: panic or unchanged), "
                            "no empty chunk, cached length = sum. Every emitted operation sequence is replayed on the real "
                            "cow_bytes::LongChain with borrowed and with owned chunks, in the debug and in the production build "
                            "(debug assertions off), every call under catch_unwind, the Buf methods called through the trait on the chain itself "
                            "(so an override in the implementation is what runs); after every operation the value is observed through "
                            "as_ref, len, is_empty, Buf::remaining, Buf::chunk (not empty while bytes remain), Buf::has_remaining and "
                            "Buf::chunks_vectored (the slices filled are a prefix of the contents, the first one not empty while bytes remain, "
                            "none for an empty destination); seeded random long sequences over the same operations and the CowBytes "
                            "accessor/comparison/hash cases (with copy_to_bytes / copy_to_slice at every position, get_u8 / get_u16, has_remaining "
                            "and chunks_vectored of CowBytes as a Buf) are logged the same way. TLC (spec/ChainTrace.tla) evaluates Post on the "
                            "observed values of every distinct logged event (identical events are judged once) and compares the "
                            "two variants field by field.",
            )
            vlib.write_evidence(prop, tier, seed, coverage, wall, len(violations), assumptions=[
                "bytes::Bytes and the standard library behave as documented (the owned variant delegates to bytes::Bytes)",
                "Debug formatting and is_temporary()/is_static() distinguish the variants by design and are not compared",
                "after an operation panicked the value is not inspected further (the property does not speak about it)",
                "the state of a chain is what its public accessors show (chunk list, len, is_empty, remaining, chunk, has_remaining, "
                "chunks_vectored): identical logged events are judged once",
                "of the methods bytes::Buf provides, copy_to_bytes, copy_to_slice, get_u8, get_u16 (big-endian), has_remaining and "
                "chunks_vectored are exercised; the other fixed-width getters (get_u32, get_i64_le, ...) and the take/chain/reader "
                "adaptors, which the trait builds from the same remaining/chunk/advance/copy_to_slice calls, are not called (an "
                "override of one of those would not be exercised)",
                "bounded: chunk counts, chunk sizes, segments and depth of the listed configurations; random part seeded",
            ])
        if violations:
            for sig, path, desc, profs, total in violations:
                print(f"VIOLATION property={prop} replay={path}")
            log(f"{prop}: {len(violations)} unknown signature(s) rejected: {[v[0] for v in violations]} ({wall:.0f}s)")
            return 1
        log(f"{prop} held on everything explored ({wall:.0f}s)")
        return 0
    finally:
        # drop what has not started; wait for the TLC / harness runs that have (they read files of `work`)
        pool.shutdown(wait=True, cancel_futures=True)
        if os.environ.get("VERIF_KEEP_WORK"):
            log(f"[keep] {work}")
        else:
            shutil.rmtree(work, ignore_errors=True)


if __name__ == "__main__":
    a = sys.argv[1:]
    tier = a[0] if a else "quick"
    rp = a[a.index("--replay") + 1] if "--replay" in a else None
    try:
        sys.exit(check(PROP, tier, int(os.environ.get("VERIF_SEED", "1") or "1"), rp))
    except ToolError as e:
        log(f"TOOL-ERROR: {e}")
        sys.exit(2)
